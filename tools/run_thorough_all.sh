#!/bin/bash
# runs every thorough tier in turn and prints one summary line per property (used with `vp run`)
cd "$(dirname "$0")/.."
for i in 01 02 03 04 05 06 07 08 09 10 11 12 13 14 15 16 17 18 19 20; do
  s=$(date +%s)
  out=$(./check C$i thorough 2>&1); rc=$?
  e=$(( $(date +%s) - s ))
  echo "C$i rc=$rc wall=${e}s $(echo "$out" | grep -E "^VIOLATION|thorough:" | tr '\n' ' ' | cut -c1-400)"
done
