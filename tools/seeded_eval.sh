#!/bin/bash
# tools/seeded_eval.sh <seeded-dir-name> <property> [more properties...]
# Applies /verif/seeded/<name>/patch.diff to /repo, runs the quick checks of the given properties,
# records which signatures were reported, and ALWAYS reverts /repo afterwards.
name="$1"; shift
dir=/verif/seeded/$name
[ -s "$dir/patch.diff" ] || { echo "no patch for $name"; exit 2; }
cd /verif
if [ -n "$(git -C /repo status --porcelain --untracked-files=no)" ]; then echo "/repo has uncommitted changes; refusing"; exit 2; fi
trap 'git -C /repo checkout -- . ; rm -f /repo/tests/seeded_demo.rs' EXIT
git -C /repo apply "$dir/patch.diff" || { echo "patch does not apply"; exit 2; }
: > "$dir/eval.log"
for p in "$@"; do
  # the evidence file of a run against a patched tree must not replace the committed one
  cp -f "evidence/$p.json" "target/evidence-$p.saved" 2>/dev/null
  out=$(./check "$p" quick 2>&1); rc=$?
  [ -f "target/evidence-$p.saved" ] && mv -f "target/evidence-$p.saved" "evidence/$p.json"
  sigs=$(echo "$out" | grep -E "^  signature:" | sed 's/^  signature: //' | tr '\n' ';')
  echo "$p rc=$rc $sigs" | tee -a "$dir/eval.log"
done
