#!/bin/bash
# tools/seeded_confirm.sh <ID> [worktree]   - confirm a seeded change in its scratch worktree:
#  (1) with the change the repository's own suite passes (only the added demo fails),
#  (2) the demo fails with the change and passes without it.
# Writes /verif/seeded/<ID>/{patch.diff,seeded_demo.rs,confirm.log}
id="$1"; wt="${2:-/tmp/mut-$id}"; name="${3:-$id}"
out=/verif/seeded/$name; mkdir -p "$out"
cd "$wt" || exit 2
export CARGO_TARGET_DIR="$wt/target" CARGO_NET_OFFLINE=true
git diff -- src > "$out/patch.diff"
cp tests/seeded_demo.rs "$out/seeded_demo.rs" 2>/dev/null
[ -s "$out/patch.diff" ] || { echo "$id: empty patch"; exit 2; }
{
echo "== suite with the change (demo excluded) =="
mv tests/seeded_demo.rs /tmp/seeded_demo_$name.rs
cargo test --workspace --no-fail-fast --offline 2>&1 | grep -E "^test result|FAILED|failed|error(\[|:)" | awk '/^test result/ {p+=$4; f+=$6; next} {print} END {print "SUITE passed="p" failed="f}'
mv /tmp/seeded_demo_$name.rs tests/seeded_demo.rs
echo "== demo with the change =="
cargo test --offline --test seeded_demo 2>&1 | grep -E "^test |^test result" | head -20
echo "== demo without the change =="
git apply -R "$out/patch.diff"
cargo test --offline --test seeded_demo 2>&1 | grep -E "^test |^test result" | head -20
git apply "$out/patch.diff"
git status --short | head -5
} > "$out/confirm.log" 2>&1
cat "$out/confirm.log"
