#!/usr/bin/env python3
"""Writes /verif/seeded/<name>/meta.json from the table below + the recorded confirm/eval logs."""
import json, os, re
ROOT = "/verif/seeded"
DESC = {
 "C01": ("C01", "interleave schedule keyed on min(dts, pts)", "audio track configured + write_video_with_dts with hierarchical B-frames (a later-decoded frame with a smaller key than an earlier one), e.g. pts order I P B b b"),
 "C02": ("C02", "ilst string item sized by chars().count() instead of bytes", "a metadata title containing a multi-byte UTF-8 character"),
 "C03": ("C03", "ctts presence flag narrowed to pts > dts", "every non-zero composition offset negative (decode clock ahead of presentation)"),
 "C04": ("C04", "last_audio_pts recorded before the inner writer accepted the frame", "accepted audio, then an audio frame rejected for its payload at a later timestamp, then a valid frame at a timestamp in between"),
 "C05": ("C05", "video duration back-patch moved before the total-duration overflow check", "a video frame rejected by the cumulative 32-bit duration rule (gap fits, total does not) as the last video call before finish"),
 "C06": ("C06", "statistics duration = max(pts) + last delta", "reordered video via write_video_with_dts with unequal decode deltas and at least two frames after the one presented last"),
 "C07": ("C07", "AV1 buffer_delay_length off by one", "sequence header with timing info, decoder model info and a decoder model for an operating point"),
 "C08": ("C08", "fast-start placeholder moov built without metadata on the audio path", "fast start + audio track + metadata that produces a udta box"),
 "C09": ("C09", "audio_prev_pts updated before payload validation", "an audio frame rejected for its payload whose timestamp lies between two accepted audio frames"),
 "C10": ("C10", "last_dts replaced before the monotonicity check (fragmented)", "accepted DTS A, rejected DTS B < A, then DTS C with B <= C < A"),
 "C11": ("C11", "tfdt taken from the first sample's PTS", "fragments that start on samples with different pts - dts (reordering + flush not aligned to equal-offset frames)"),
 "C12": ("C12", "ADTS frame-length guard compares against the constant 7", "CRC-protected ADTS frame (9-byte header) with declared frame length 8 or 9"),
 "C13": ("C13", "finalized flag derived after the run from bytes_written > 0, byte counter bumped after the write", "sink failure inside the very first output buffer, then a retry of finish_in_place"),
 "C14": ("C14", "4-byte start-code guard i + 4 < len", "an access unit ending in a bare 00 00 00 01 after at least one non-empty NAL"),
 "C15": ("C15", "interleave sort key compares sample index before track kind", "equal tick across tracks where the audio sample's index is lower than the video sample's"),
 "C16": ("C16", "cumulative-duration guard uses the stale previous delta", "three or more frames whose last gap is larger than the previous one and pushes the total past 2^32 ticks"),
 "C17": ("C17", "write_counted issues a single write() instead of write_all()", "a sink that accepts only part of a buffer per call"),
 "C18": ("C18", "146_096 -> 146_097 in civil-from-days", "creation time on 29 February of a year divisible by 400"),
 "C19": ("C19", "next_track_ID ignores an audio track without samples", "audio configured, no audio frame written"),
 "C20": ("C20", "CLI applies --language before --title (with_metadata then discards it)", "both --title and --language given"),
 "C01b": ("C01", "fast-start measuring pass chooses its layout from 'audio samples queued' instead of 'audio configured'", "fast start + audio configured + no accepted audio frame + at least one video frame"),
 "C02b": ("C02", "fragment payload byte counter bumped before the DTS check", "a rejected fragmented write followed by a flush with at least one accepted sample"),
 "C03b": ("C03", "composition-offset range check moved after the duration back-patch", "two accepted frames, then a frame rejected for pts - dts >= 2^31 with a different decode spacing, no later accepted frame"),
 "C04b": ("C04", "first_video_pts overwritten when write_video_with_dts is used for the first time after write_video", "mixing the two video entry points with audio timestamps between the two candidate first-video times"),
 "C05b": ("C05", "video_frame_count bumped before the inner write", "AV1 + encode_video after a first frame rejected for lacking a sequence header"),
 "C06b": ("C06", "writer finalized flag set only after a successful run", "sink failure during finish followed by another call on the same muxer"),
 "C07b": ("C07", "H.264 fragmented builder forwards a stray VPS", "new_with_fragment for H.264 with with_vps() also called"),
 "C08b": ("C08", "fast-start final pass drops the audio track when no audio sample is queued", "fast start + audio configured + no audio frame"),
 "C09b": ("C09", "zero sample duration treated as unknown and replaced by the last delta", "two consecutive audio frames on the same tick followed by later audio with a non-zero delta"),
 "C10b": ("C10", "flush guard tests for payload bytes instead of queued samples", "flush while every queued sample is zero-length"),
 "C11b": ("C11", "gapless-timeline rule keeps a stale base within one tick of the previous run's end", "three fragments: one starting exactly one tick after the previous run's end and ending with two equal-DTS samples, the next starting on that DTS"),
 "C12b": ("C12", "last_dts replaced before the monotonicity check (fragmented) - panics in build_trun", "accept, reject, accept (between), flush on the fragmented muxer under overflow checks"),
 "C13b": ("C13", "hand-rolled 64 KiB chunk loop does not retry Interrupted", "a buffer larger than 64 KiB in one write plus an Interrupted answer inside it"),
 "C14b": ("C14", "ADTS payload length computed as frame_length - 7 for protected frames", "CRC-protected frame in a buffer longer than the declared frame length"),
 "C15b": ("C15", "schedule sorted with sort_unstable by timestamp only", "more than 32 samples in total with cross-track timestamp ties"),
 "C16b": ("C16", "composition-offset range check skipped for the first frame", "first frame written with |pts - dts| >= 2^31 ticks"),
 "C17b": ("C17", "ilst tags collected in a HashMap (RandomState iteration order)", "metadata with both title and creation time, same history repeated"),
 "C18b": ("C18", "set_create_time replaces the whole Metadata value", "with_metadata(title) or set_language followed by set_create_time"),
 "C19b": ("C19", "av1C chroma_subsampling_x / _y bits swapped", "AV1 4:2:2 stream (subsampling_x != subsampling_y)"),
 "C20b": ("C20", "CLI trims the --title value", "a title with leading or trailing whitespace"),
 "C01c": ("C01", "ADTS frame length masked to 12 bits", "an AAC frame whose ADTS frame length is 4096 or more (payload of 4089+ bytes)"),
 "C02c": ("C02", "fast-start mdat size taken from a running byte counter fed with the submitted (Annex B) lengths", "fast start + H.264/H.265 input whose stored length differs from the submitted one (3-byte start codes)"),
 "C03c": ("C03", "pts ticks = round(dts) + round(pts - dts) instead of round(pts)", "write_video_with_dts with timestamps off the tick grid and a composition offset that is not a whole number of ticks (e.g. 23.976 fps reordering)"),
 "C04c": ("C04", "audio cumulative-duration rule measured from the first video sample", "audio starting later than the first video frame and an audio gap just inside the 32-bit cumulative bound"),
 "C05c": ("C05", "first audio timestamp cached (get_or_insert) before payload validation", "a first audio call rejected for its payload at a later timestamp than the audio accepted afterwards"),
 "C06c": ("C06", "statistics duration measured from the first video frame", "first video frame later than t = 0"),
 "C07c": ("C07", "video configuration captured before the composition-offset check", "a first keyframe rejected for an overflowing composition offset, then a keyframe carrying different parameter sets"),
 "C08c": ("C08", "non-fast-start emission merges the queues by PTS instead of using the schedule", "reordered video (pts != dts) interleaved with audio, compared across both layouts"),
 "C09c": ("C09", "audio ticks accumulated from per-step rounded deltas", "six or more audio frames with a spacing that is not a whole number of ticks (1024/44100 s)"),
 "C10c": ("C10", "init_segment() resets the fragment sequence number", "an init-segment request after at least one emitted fragment"),
 "C11c": ("C11", "pending fragment base decode time captured before the monotonicity check", "a rejected write directly after a flush (empty queue), then accepted writes and a flush"),
 "C12c": ("C12", "hevc_annexb_to_hvcc falls back to raw bytes only when no start code is found", "an H.265 later frame consisting only of start codes, then finish"),
 "C13c": ("C13", "sample emission continues after a failed write (errors collected, last one returned)", "a sink that fails exactly one write during sample emission and accepts later ones"),
 "C14c": ("C14", "Annex B scanner skips 64-byte blocks that contain no 0x01", "a start code straddling a 64-byte block boundary (a unit of 61+ bytes before it)"),
 "C15c": ("C15", "audio ticks computed relative to the first video frame", "first video frame later than t = 0 with audio"),
 "C16c": ("C16", "H.265 16-bit length guard no longer covers the PPS", "an H.265 keyframe whose PPS is longer than 65535 bytes"),
 "C17c": ("C17", "interleave schedule cached in a thread_local keyed by track lengths", "two muxers with equal sample counts but different timestamps finished on the same thread"),
 "C18c": ("C18", "udta emitted whenever any metadata field is set, even if no item results", "metadata holding only a language"),
 "C19c": ("C19", "Opus sample entry samplerate = configured rate", "Opus configured with a rate other than 48000"),
 "C20c": ("C20", "CLI opens the output without truncating", "an output path that already holds a longer file"),
 "C01d": ("C01", "hevc_annexb_to_hvcc skips units shorter than the 2-byte NAL header", "an H.265 frame holding a 1-byte unit next to longer ones"),
 "C02d": ("C02", "writer's finalized flag set only after a successful layout", "a sink failure during finish, then a retried finish that succeeds: the sink holds ftyp mdat ftyp mdat moov"),
 "C03d": ("C03", "audio tables in the mdat-first layout get the video track's last delta", "fast start off + audio + last video delta different from the last audio delta"),
 "C04d": ("C04", "H.265 parameter-set scan stops once SPS and PPS are found", "an H.265 first keyframe whose VPS follows the SPS and PPS"),
 "C05d": ("C05", "fragmented last_dts taken (Option::take) when the queue is empty", "a write rejected directly after a flush, then another regressing write"),
 "C06d": ("C06", "statistics use the API-level frame counters, audio counter bumped before the inner write", "an audio frame rejected by the container writer (bad ADTS/Opus, duration overflow)"),
 "C07d": ("C07", "extract_avc_config keeps the last PPS seen before the SPS", "an H.264 keyframe with two different PPS units before the first SPS"),
 "C08d": ("C08", "set_video_track rebuilds the builder and drops fast_start", "with_fast_start(false) called before the alias set_video_track"),
 "C09d": ("C09", "stts builder collapses to one entry when sum == first * count", "non-uniform audio deltas whose deviations cancel against the first delta (5+ samples at tick level)"),
 "C10d": ("C10", "data_offset patched in place after searching the moof for the bytes 'trun'", "a fragment whose first decode time contains the bytes 74 72 75 6E"),
 "C11d": ("C11", "init segment's mvhd duration filled from the running base decode time", "init segment first requested after a flush of a segment with a non-zero start"),
 "C12d": ("C12", "audio cumulative-duration guard measured from the first video DTS (unchecked subtraction)", "first video frame via write_video_with_dts with DTS after PTS, then two audio frames before that DTS"),
 "C13d": ("C13", "finalized flag cleared again when the error kind is InvalidInput or InvalidData", "a sink failing with one of these two kinds, then a retried finish"),
 "C14d": ("C14", "ADTS frame length decoded with a 12-bit mask", "ADTS frames of 4096 bytes or more"),
 "C15d": ("C15", "interleave schedule keyed on timestamps truncated to 32 bits", "absolute timestamps straddling a multiple of 2^32 ticks (13 h 15 min)"),
 "C16d": ("C16", "fragmented builder guard compares against 1 << 16 with >", "width or height of exactly 65536 through new_with_fragment"),
 "C17d": ("C17", "encode_audio advances its clock by per-frame rounded ticks", "encode_audio at 44.1 kHz (or 22.05/11.025 kHz) for four or more frames"),
 "C18d": ("C18", "fast-start measuring moov built without metadata on the audio path", "fast start + audio + metadata producing a udta box"),
 "C19d": ("C19", "AV1 seq_tier overwritten by later operating points", "a sequence header with two or more operating points, a later one at level 4.0+ with another tier"),
 "C20d": ("C20", "CLI reads its input through BufReader::fill_buf (first 8 KiB only)", "an input hex file longer than 8192 characters"),
}
def main():
    for name,(prop,what,needs) in DESC.items():
        d=os.path.join(ROOT,name)
        if not os.path.isdir(d): continue
        confirm=open(os.path.join(d,"confirm.log")).read() if os.path.exists(os.path.join(d,"confirm.log")) else ""
        ev=open(os.path.join(d,"eval.log")).read() if os.path.exists(os.path.join(d,"eval.log")) else ""
        caught=[]
        for line in ev.splitlines():
            m=re.match(r"(C\d+) rc=(\d+) (.*)",line)
            if m:
                sigs=[s.split("  (")[0] for s in m.group(3).split(";") if s.strip()]
                caught.append({"check":m.group(1),"exit":int(m.group(2)),"signatures":sigs})
        suite=re.search(r"SUITE passed=(\d+) failed=(\d+)",confirm)
        meta={
          "breaks_property":prop,
          "change":what,
          "needs_to_manifest":needs,
          "written_by":"independent sub-agent given only the property record and a scratch worktree",
          "confirmed":{
             "command":"tools/seeded_confirm.sh (cargo test --workspace --no-fail-fast --offline in the scratch worktree; demo with and without the change)",
             "suite_with_change":{"passed":int(suite.group(1)) if suite else None,"failed":int(suite.group(2)) if suite else None},
             "demo_fails_with_change":"FAILED" in confirm.split("== demo without the change ==")[0],
             "demo_passes_without_change":"FAILED" not in confirm.split("== demo without the change ==")[-1],
          },
          "evaluation":{"command":"tools/seeded_eval.sh (git -C /repo apply patch.diff; ./check <ID> quick; git -C /repo checkout -- .)","results":caught},
        }
        json.dump(meta,open(os.path.join(d,"meta.json"),"w"),indent=1)
    print("ok")
main()
