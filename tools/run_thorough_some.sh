#!/bin/bash
# tools/run_thorough_some.sh C08 C09 ...  - thorough tier of the given properties, one summary line each
cd "$(dirname "$0")/.."
for p in "$@"; do
  s=$(date +%s)
  out=$(./check $p thorough 2>&1); rc=$?
  e=$(( $(date +%s) - s ))
  echo "$p rc=$rc wall=${e}s $(echo "$out" | grep -E "^VIOLATION|thorough:" | tr '\n' ' ' | cut -c1-400)"
done
