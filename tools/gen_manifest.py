#!/usr/bin/env python3
"""Regenerates /verif/MANIFEST.json from the table below (single source of truth for the interface)."""
import json, os
ROOT = os.path.dirname(os.path.dirname(os.path.abspath(__file__)))

# id -> (category, engine, technique, text, note, design_ref)
CHECKS = {}
def chk(pid, cat, engine, technique, text, note, ref):
    CHECKS[pid] = dict(cat=cat, engine=engine, technique=technique, text=text, note=note, ref=ref)

READER = "Trusted base: the independent ISO-BMFF reader and frame factories under harness/oracle (no code shared with muxide); rustc/std; bounds as stated in the evidence file."

chk("C01", "model_checking", "E1-history-explorer",
    "bounded exhaustive enumeration of call histories on the real muxer, output dereferenced by an independent reader",
    "Every accepted-only history up to the stated frame counts, over all submission orders, PTS permutations, key-flag vectors, size patterns and configurations, is executed on the real Muxer and every sample-table entry is dereferenced and compared byte-for-byte with the submitted frame in MP4 framing; sample ranges must tile the mdat payload exactly. Exhaustive within the bound, no sampling.",
    READER, "DESIGN.md §4 C01")
chk("C08", "model_checking", "E1-history-explorer",
    "bounded exhaustive enumeration of histories, each executed twice (fast start on/off), differential oracle",
    "Every history of the C01 set is executed with fast start on and off (and several metadata lengths); both files must dereference correctly for their own layout and their reader-reduced movies must be byte-equal. Differential, so no hand-written expected values.",
    READER, "DESIGN.md §4 C08")
chk("C15", "model_checking", "E1-history-explorer",
    "bounded exhaustive enumeration of A/V submission orders and timestamp assignments on the real muxer; storage-order oracle",
    "Every admissible submission order of the bounded A/V history set is executed; per-track offsets must increase with sample number and, for non-reordered streams, the global storage order must equal the timestamp merge with video first on ties.",
    READER, "DESIGN.md §4 C15")

chk("C02", "model_checking", "E1-history-explorer + E5-fragment-search",
    "bounded exhaustive enumeration of histories (progressive) and of write/flush interleavings (fragmented); strict recursive box tiling by an independent reader",
    "Every byte stream produced by the bounded history spaces (progressive files of the C01 set including the degenerate histories; init and media segments of the C10 search) is parsed by a strict reader that demands exact tiling of every container, the mandatory box hierarchy per track and mutually consistent table counts.",
    READER, "DESIGN.md §4 C02")
chk("C03", "model_checking", "E1-history-explorer",
    "bounded exhaustive enumeration of timestamp sequences over a step alphabet on the real muxer; exact integer timing oracle",
    "Every video DTS sequence / composition-offset vector / audio PTS sequence over the step alphabets up to the stated length is executed; stts, ctts and mdhd are compared with differences of exactly rounded absolute timestamps (computed in integer arithmetic from the f64 bits). Two long single traces cover the no-drift clause.",
    READER + " Tie-sensitive timestamps (x.5 ticks) are excluded and counted.", "DESIGN.md §4 C03")
chk("C04", "model_checking", "contract-automaton lock-step explorer",
    "explicit enumeration of all call histories up to a depth bound over a relative-symbol alphabet, reference contract model stepped in lock-step with the real muxer",
    "All call histories over a 56-symbol alphabet (one symbol per guard outcome, relative to the current state) to the stated depth, for 4 codecs x {AAC, Opus, none}: every call must succeed iff the executable transcription of the documented contract finds no violated precondition, and every error must name a precondition that this call violated. Every explored trace is an implementation execution, so model and code are bound by construction.",
    "Trusted base: the contract model in harness/oracle/src/model.rs (transcribed from docs/contract.md and the property statement) and the reference ADTS/Opus/Annex-B walkers.", "DESIGN.md §4 C04")
chk("C05", "model_checking", "contract-automaton lock-step explorer",
    "explicit enumeration of all call histories up to a depth bound; differential comparison of each history with its rejected calls deleted",
    "Every history of the C04 space that contains a rejected call is executed twice on the real muxer, with and without the rejected calls; later decisions, statistics and every output byte must be identical. No hand-written expectation.",
    "Trusted base: determinism of one execution (checked by C17).", "DESIGN.md §4 C05")
chk("C06", "model_checking", "contract-automaton lock-step explorer",
    "explicit enumeration of all call histories incl. all five finish entry points up to a depth bound; recording sink + lifecycle/statistics oracle",
    "All histories over an alphabet containing the five finish entry points at any position: a recording sink stamps every write with the API call in progress; nothing may be written outside the first successful finish, everything afterwards must fail, and the statistics must equal accepted frame counts, sink bytes and the largest presentation end time within one tick.",
    READER, "DESIGN.md §4 C06")

chk("C10", "model_checking", "E5-fragment-search",
    "explicit-state search of the FragmentedMuxer state graph (states keyed on the derived Debug output) with a FIFO reference model in lock-step",
    "From every state reachable within the depth bound every operation of the alphabet (12 relative writes, flush, readiness/duration queries, init) is executed on the real FragmentedMuxer next to a reference model; segments are parsed by the independent reader and sample bytes are located through data_offset relative to the moof. Rejected writes, empty flushes and queries must leave the complete Debug state unchanged.",
    READER + " Equal Debug output is taken as equal state (all fields are printed).", "DESIGN.md §4 C10")
chk("C11", "model_checking", "E5-fragment-search",
    "explicit-state search of the FragmentedMuxer state graph over a decode-time step alphabet, timeline reference model in lock-step",
    "All write/flush/init interleavings over a timeline alphabet (steps 0, 1, 3000, 3003, 100000, rejected -1; start DTS 0 and 9000) to the depth bound: per-segment durations, composition offsets and sync flags against the submitted values; base decode time monotone, never before the previous segment's last sample, constant offset for constant-interval streams; init segment byte-identical on every request.",
    READER, "DESIGN.md §4 C11")

chk("C13", "fault_enumeration", "E3-sink-fault-explorer",
    "exhaustive enumeration of sink fault schedules (every failing call, every byte budget, all schedules with a bounded number of short/interrupted answers) on the real finish path",
    "For representative histories of every layout the sink's answer to each write call is scripted: failure at every call with five error kinds, every byte budget, all schedules with <= 2 (thorough 3) deviations over {1 byte, half, Interrupted}, full menu product for tiny files, and all 2-call continuations after the finish attempt. Accepted bytes must be a prefix of the fault-free file, finish must fail iff a write ultimately failed, and nothing may be written outside the first finish attempt.",
    "Trusted base: the scripted sink (harness/mc/src/faults.rs). A sink answering Interrupted forever is excluded.", "DESIGN.md §4 C13")
chk("C14", "exploration", "E2-input-enumerator",
    "exhaustive small-scope enumeration of byte strings and ADTS header fields against reference splitters written from the statement",
    "All byte strings up to 13 (thorough 15) bytes over {00,01,02} and up to 8 (9) over {00,01,03,65,FF}, constructive unit lists, and all 8192 ADTS frame lengths x protection x buffer length x field variants, through the public conversion functions and through a real muxer with the stored sample read back.",
    "Trusted base: reference splitter / ADTS parser in harness/oracle/src/refmodel.rs; the independent reader.", "DESIGN.md §4 C14")

chk("C07", "exploration", "E2-input-enumerator",
    "bounded exhaustive enumeration of first keyframes / sequence headers / audio configurations produced by spec-level writers, expected record fields known by construction",
    "All first keyframes of <= 4 (thorough 5) NAL units over a parameter-set alphabet x framings; all AV1 sequence headers over the branch product of spec 5.5 written by an independent bit writer x OBU layouts; all VP9 headers of the accepted form; all audio (codec, rate, channels) combinations; all fragmented builder configurations. The config record read back from the finished file / init segment must equal what the generator wrote.",
    READER + " The AV1 bit writer follows AV1 spec 5.5 and is the source of truth for expected av1C fields.", "DESIGN.md §4 C07")

chk("C12", "exploration", "E2-input-enumerator",
    "bounded exhaustive enumeration of byte strings, bit strings, argument tuples and lifecycle states for every public entry point, under catch_unwind with overflow checks on",
    "Every public function of codec::*, validation, api and fragmented is called on exhaustively enumerated small inputs (all short byte strings, all strings over per-parser boundary alphabets, all AV1 header payloads of a fixed bit length, one- and two-deviation neighbourhoods of valid exemplars) and, for the stateful types, with every argument tuple over boundary alphabets in every lifecycle state; creation times up to u64::MAX run in child processes with a time limit. The build has overflow checks and debug assertions enabled; any unwind or stall is a violation.",
    "Trusted base: catch_unwind observes every panic (panic=unwind profile); allocation failure is out of scope. Functions documented to panic (assert_invariant!(false), contract_test) are exempt.", "DESIGN.md §4 C12")

chk("C16", "exploration", "E2-boundary-enumerator",
    "exhaustive enumeration of {below, at, above} inputs for every narrowing site and their pairwise combinations, exact-integer oracle on the parsed output",
    "For each fixed-width field the muxer writes, histories are constructed that put the derived value just below, at and just above the field boundary (decode-time gaps and cumulative durations around 2^31/2^32, composition offsets around 2^31, parameter sets and dimensions around 2^16, sample rates around 2^16, timestamps near 2^53, fragmented gaps/offsets), in combination with the neighbouring sites. The crossing call must return an error or every decoded field must equal the exact integer recomputed from the history.",
    READER + " Descriptor lengths near 2^8 and box sizes near 2^32 are unreachable and not claimed.", "DESIGN.md §4 C16")

chk("C18", "exploration", "E2-input-enumerator",
    "exhaustive enumeration of creation dates (every day), language codes (all 26^3) and title/presence combinations through finish, decoded by the independent reader; differential against the metadata-free run",
    "Every day from 1970 to 2110 (thorough: to 9999-12-31) plus the calendar-special days of every year to 9999 is rendered and compared with an independently written civil-from-days calendar; all 17576 language codes are packed and read back from every track; titles of all UTF-8 shapes and all presence combinations are checked for exact bytes, item structure and absence of udta; the same history without metadata must give the same reader-reduced movie with uniformly shifted offsets.",
    READER + " Reference calendar in harness/oracle/src/refmodel.rs.", "DESIGN.md §4 C18")
chk("C19", "exploration", "E2-configuration-enumerator",
    "exhaustive enumeration of the configuration space, every header box and configuration record decoded field by field by a specification-derived strict reader",
    "All codec x audio x layout x metadata configurations x dimensions x frame counts, all channel/rate combinations, and the fragmented configurations with their init and media segments are produced and every fixed-layout box (ftyp, mvhd, tkhd, mdhd, hdlr, vmhd, smhd, dref/url, stsd, sample entries, avcC, hvcC, av1C, vpcC, esds, dOps, trex, mfhd, tfhd, tfdt, trun) is checked for size, version, flags, reserved bits and recovered values.",
    "Trusted base: the reader's field decoders, written from ISO/IEC 14496-12/-14/-15 and the AV1, VP9 and Opus bindings.", "DESIGN.md §4 C19")

chk("C09", "model_checking", "E1-history-explorer",
    "bounded exhaustive enumeration of A/V histories over start-time / composition-offset / audio-lead alphabets on the real muxer; edit-list-aware presentation-timeline oracle",
    "Every A/V history over the stated start-time, composition-offset, audio-lead and step alphabets is executed; the presentation time of every audio sample relative to the first video frame is rebuilt from stts/ctts (and edit lists when present) and compared with the submitted difference within one tick. The pinned tree's missing start offset is a recorded finding with a narrowly matched signature.",
    READER, "DESIGN.md §4 C09")
chk("C17", "model_checking", "E4-baton-scheduler + E1 path comparison",
    "stateless DFS over all thread schedules up to a preemption bound (real OS threads under a cooperative baton scheduler), plus exhaustive call-granularity interleavings on one thread and differential comparison of equivalent API paths",
    "2-3 real threads run muxer programs under a scheduler that owns every interleaving decision at the stated scheduling points; every schedule up to the preemption bound is executed and each program must reproduce its solo results, bytes and thread-local log; schedules are replayed to confirm determinism. Two instances on one thread are interleaved in every order; equivalent API paths, sink types, cross-thread moves and convenience-vs-explicit writes are compared byte-for-byte; wall-clock independence is checked under an LD_PRELOAD clock shift. Two of the six programs drive a FragmentedMuxer; a muxer is also run directly after a neighbour on the same thread whose finish failed at every sink write in turn, and moved to another thread after every prefix of its calls. The for-all-W auto-trait clause (Muxer<W>: Send for every W: Send; FragmentedMuxer: Send) is a separate crate (harness/sendprobe) that the check compiles on its own: the compiler's verdict, an auxiliary static obligation and not exploration; a compile error there is reported as a C17 violation.",
    "Trusted base: the scheduler (harness/oracle/src/sched.rs, with its own lost-update unit test); interleavings finer than the scheduling points are not explored (muxide has no shared mutable state outside the thread-local log - scan in the evidence).", "DESIGN.md §4 C17")

chk("C20", "exploration", "E6-cli-product-enumerator",
    "exhaustive enumeration of CLI option products and input-file shapes against an in-process library twin and the independent reader",
    "The built muxide binary is spawned for every element of the valid option product (quick: pairwise-complete covering set; thorough: full product) and its output file is compared byte-for-byte with an in-process library run; every single invalid deviation must exit unsuccessfully without reporting completion; validate's verdict is compared with the reference predicate over all pairs of input kinds; info must terminate on all small malformed box files and list exactly the reader's top-level boxes for well-formed output.",
    "Trusted base: the binary is rebuilt from /repo by ./check C20; process spawning and file I/O of the sandbox.", "DESIGN.md §4 C20")

NOT_YET = {
}

def main():
    props = [json.loads(l)["id"] for l in open(os.path.join(ROOT, "properties.jsonl"))]
    checks = []
    for pid in props:
        if pid not in CHECKS:
            continue
        c = CHECKS[pid]
        checks.append({
            "property_id": pid,
            "quick_cmd": f"./check {pid} quick",
            "thorough_cmd": f"./check {pid} thorough",
            "evidence_file": f"/verif/evidence/{pid}.json",
            "replay_cmd_template": "./check --replay {path}",
            "engine": c["engine"],
            "level_claimed": {"category": c["cat"], "text": c["text"], "design_ref": c["ref"]},
            "level_note": c["note"],
            "technique": c["technique"],
        })
    na = [{"property_id": p, "reason": NOT_YET.get(p, "check not built yet in this round (planned, see DESIGN.md §4); nothing is claimed for it")} for p in props if p not in CHECKS]
    engines = {}
    for pid, c in CHECKS.items():
        engines.setdefault(c["engine"], []).append(pid)
    man = {
        "version": 1,
        "setup_cmd": "./check --build",
        "hooks": {
            "guard": "--cfg muxide_verif",
            "enable": "no hooks are needed: every observation point is reachable through the public API; the harness links /repo as a path dependency and is rebuilt from the working tree by every check",
            "baseline_off_cmd": "cd /repo && cargo test --workspace --no-fail-fast --offline",
            "source_commits": [],
            "add_only": True,
        },
        "engines": [{"name": n, "path": "/verif/harness", "serves_properties": sorted(p), "kind_free_text": "bounded exhaustive exploration of the real code (hand-written Rust explorer)"} for n, p in sorted(engines.items())],
        "checks": checks,
        "not_applicable": na,
        "notes": "All checks: exit 0 = held on everything explored (KNOWN-FINDING lines for recorded defects), exit 1 = VIOLATION line(s), exit 2 = machinery failure. Known findings live in /verif/known_findings.txt and are never written at run time.",
    }
    json.dump(man, open(os.path.join(ROOT, "MANIFEST.json"), "w"), indent=1)
    print("checks:", [c["property_id"] for c in checks], "not_applicable:", [n["property_id"] for n in na])

main()
