#!/usr/bin/env python3
"""Regenerates the catch table of DESIGN.md section 10.6 from /verif/seeded/*/meta.json.
The table sits between the markers <!-- seeded-table-begin --> and <!-- seeded-table-end -->."""
import json, os, re
ROOT = "/verif/seeded"
def key(n):
    m = re.match(r"C(\d+)([a-z]?)$", n)
    return (m.group(2), int(m.group(1)))
rows = ["| dir | breaks | change | needs | reported by (quick tier; first signatures) |", "|---|---|---|---|---|"]
for n in sorted((d for d in os.listdir(ROOT) if re.match(r"C\d+[a-z]?$", d)), key=key):
    p = os.path.join(ROOT, n, "meta.json")
    if not os.path.exists(p):
        continue
    m = json.load(open(p))
    rep = []
    for r in m.get("evaluation", {}).get("results", []):
        if r["exit"] == 1:
            sigs = [s.split("/", 1)[1] if "/" in s else s for s in r["signatures"][:2]]
            rep.append(f"{r['check']}: " + ", ".join(sigs))
        else:
            rep.append(f"{r['check']}: not reported (exit {r['exit']})")
    esc = lambda s: s.replace("|", "\\|")
    rows.append(f"| {n} | {m['breaks_property']} | {esc(m['change'])} | {esc(m['needs_to_manifest'])} | {esc('; '.join(rep))} |")
table = "\n".join(rows)
d = open("/verif/DESIGN.md").read()
b, e = "<!-- seeded-table-begin -->", "<!-- seeded-table-end -->"
if b in d and e in d:
    d = d[: d.index(b) + len(b)] + "\n" + table + "\n" + d[d.index(e):]
    open("/verif/DESIGN.md", "w").write(d)
    print(f"table with {len(rows) - 2} rows written")
else:
    print(table)
