#!/bin/bash
# Replays every stored counterexample under /verif/regressions against the current /repo tree.
# Each file is a replay artefact of a defect that was repaired by a "fix:" commit (or a check's
# self-test mutation); on a healthy tree every one must report "holds" (exit 0).
cd "$(dirname "$0")/.."
./check --build >/dev/null || exit 2
bad=0
for f in regressions/*.json; do
  out=$(./target/release/mc --replay "$f" 2>&1); rc=$?
  if [ $rc -ne 0 ]; then echo "rc=$rc $f"; echo "$out" | tail -3; bad=$((bad+1)); fi
done
echo "replayed $(ls regressions/*.json | wc -l) artefacts, $bad not holding"
[ $bad -eq 0 ]
