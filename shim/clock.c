/* LD_PRELOAD shim: shifts CLOCK_REALTIME by VERIF_CLOCK_OFFSET seconds (C17, wall-clock clause). */
#define _GNU_SOURCE
#include <dlfcn.h>
#include <stdlib.h>
#include <time.h>

static long offset_secs(void) {
    const char *e = getenv("VERIF_CLOCK_OFFSET");
    return e ? atol(e) : 0;
}

int clock_gettime(clockid_t clk, struct timespec *ts) {
    static int (*real)(clockid_t, struct timespec *);
    if (!real) real = (int (*)(clockid_t, struct timespec *))dlsym(RTLD_NEXT, "clock_gettime");
    int r = real(clk, ts);
    if (r == 0 && clk == CLOCK_REALTIME) ts->tv_sec += offset_secs();
    return r;
}
