//! C17, type-level clause: "a muxer may be moved between threads whenever its sink may".
//! These functions compile only if the implication holds for EVERY sink type W (a universally
//! quantified statement the compiler decides; it is not exploration and is labelled as the
//! auxiliary static obligation of C17). `./check C17` builds this crate on its own: if it fails
//! to compile while muxide itself compiles, that is reported as a C17 violation.
use muxide::api::Muxer;
use muxide::fragmented::FragmentedMuxer;
use std::io::Write;

fn is_send<T: Send>() {}

pub fn muxer_is_send_for_every_send_sink<W: Write + Send>() {
    is_send::<Muxer<W>>();
}

/// the fragmented muxer has no sink: it must be movable unconditionally
pub fn fragmented_muxer_is_send() {
    is_send::<FragmentedMuxer>();
}
