//! Frame factories. Every payload carries a tag pattern and a distinctive length so that a
//! misplaced, truncated or swapped sample is visible; payload bytes avoid 0x00-0x03 so that no
//! accidental start code appears inside a NAL body.

#[derive(Clone, Copy, PartialEq, Eq, Debug, Hash, PartialOrd, Ord, serde::Serialize, serde::Deserialize)]
pub enum VCodec {
    H264,
    H265,
    Av1,
    Vp9,
}

pub const VCODECS: [VCodec; 4] = [VCodec::H264, VCodec::H265, VCodec::Av1, VCodec::Vp9];

#[derive(Clone, Copy, PartialEq, Eq, Debug, Hash, PartialOrd, Ord, serde::Serialize, serde::Deserialize)]
pub enum ACodec {
    AacLc,
    AacMain,
    AacSsr,
    AacLtp,
    AacHe,
    AacHev2,
    Opus,
}

pub const ACODECS: [ACodec; 7] = [ACodec::AacLc, ACodec::AacMain, ACodec::AacSsr, ACodec::AacLtp, ACodec::AacHe, ACodec::AacHev2, ACodec::Opus];

impl ACodec {
    pub fn is_aac(self) -> bool {
        self != ACodec::Opus
    }
}

/// body bytes: tag-dependent, never 0x00..=0x03
pub fn body(tag: u32, len: usize) -> Vec<u8> {
    (0..len).map(|i| 0x10u8.wrapping_add(((tag as usize * 37 + i * 11) % 0xe0) as u8)).collect()
}

pub const SC4: [u8; 4] = [0, 0, 0, 1];
pub const SC3: [u8; 3] = [0, 0, 1];

pub fn h264_sps(variant: u8) -> Vec<u8> {
    vec![0x67, 0x42 + variant, 0x10 + variant, 0x1e + variant, 0xda, 0x12, 0x80 + variant, 0x2d, 0x8b, 0x11]
}
pub fn h264_pps(variant: u8) -> Vec<u8> {
    vec![0x68, 0xce, 0x38 + variant, 0x80]
}
pub fn h265_vps(variant: u8) -> Vec<u8> {
    vec![0x40, 0x01, 0x0c, 0x11 + variant, 0xff, 0xff, 0x21]
}
pub fn h265_sps(variant: u8) -> Vec<u8> {
    // byte 3 = profile space/tier/idc, byte 14 = level
    vec![0x42, 0x01, 0x11, 0x21 + variant, 0x60, 0x10, 0x10, 0x13, 0x90, 0x14, 0x15, 0x16, 0x17, 0x18, 0x5d + variant, 0xa0]
}
pub fn h265_pps(variant: u8) -> Vec<u8> {
    vec![0x44, 0x01, 0xc0 + variant, 0x73, 0xc0, 0x4c, 0x90]
}

/// The units (without start codes) of a video frame for the NAL codecs.
pub fn nal_units(codec: VCodec, key: bool, with_cfg: bool, tag: u32, len: usize) -> Vec<Vec<u8>> {
    let mut u = vec![];
    match codec {
        VCodec::H264 => {
            if with_cfg {
                u.push(h264_sps(0));
                u.push(h264_pps(0));
            }
            let mut s = vec![if key { 0x65 } else { 0x41 }];
            s.extend(body(tag, len.max(1)));
            u.push(s);
        }
        VCodec::H265 => {
            if with_cfg {
                u.push(h265_vps(0));
                u.push(h265_sps(0));
                u.push(h265_pps(0));
            }
            // keyframes cycle over the three picture types the convenience path documents as
            // keyframes: IDR_W_RADL (19), IDR_N_LP (20), CRA (21)
            let mut s = vec![if key { [0x26, 0x28, 0x2a][tag as usize % 3] } else { 0x02 }, 0x01];
            s.extend(body(tag, len.max(1)));
            u.push(s);
        }
        _ => panic!("not a NAL codec"),
    }
    // every third frame also carries very short units (a 1-byte unit before the slice, a 2-byte
    // unit after it): the conversion must keep every non-empty unit, whatever its length
    if tag % 3 == 2 {
        let at = u.len() - 1;
        u.insert(at, vec![if codec == VCodec::H264 { 0x09 } else { 0x4a }]);
        u.push(if codec == VCodec::H264 { vec![0x0b, 0x80] } else { vec![0x4a, 0x01] });
    }
    u
}

pub fn annexb(units: &[Vec<u8>], three_byte: bool) -> Vec<u8> {
    let mut o = vec![];
    for (i, u) in units.iter().enumerate() {
        if three_byte && i % 2 == 1 {
            o.extend_from_slice(&SC3);
        } else {
            o.extend_from_slice(&SC4);
        }
        o.extend_from_slice(u);
    }
    o
}

/// Start-code pattern by `mode % 4`: 0 = every unit behind 00 00 00 01; 1 = odd units behind
/// 00 00 01; 2 = the first unit behind the long form and every later one behind the short form
/// (x264's habit); 3 = every unit behind the short form.
pub fn annexb_mode(units: &[Vec<u8>], mode: u32) -> Vec<u8> {
    let mut o = vec![];
    for (i, u) in units.iter().enumerate() {
        let short = match mode % 4 {
            0 => false,
            1 => i % 2 == 1,
            2 => i > 0,
            _ => true,
        };
        o.extend_from_slice(if short { &SC3[..] } else { &SC4[..] });
        o.extend_from_slice(u);
    }
    o
}

pub fn length_prefixed(units: &[Vec<u8>]) -> Vec<u8> {
    let mut o = vec![];
    for u in units {
        o.extend_from_slice(&(u.len() as u32).to_be_bytes());
        o.extend_from_slice(u);
    }
    o
}

// ---------------------------------------------------------------------------------------------
// AV1
// ---------------------------------------------------------------------------------------------

pub struct BitW {
    pub bytes: Vec<u8>,
    pub nbits: usize,
}

impl BitW {
    pub fn new() -> Self {
        BitW { bytes: vec![], nbits: 0 }
    }
    pub fn bit(&mut self, b: bool) {
        if self.nbits % 8 == 0 {
            self.bytes.push(0);
        }
        if b {
            let i = self.nbits / 8;
            self.bytes[i] |= 0x80 >> (self.nbits % 8);
        }
        self.nbits += 1;
    }
    pub fn bits(&mut self, v: u64, n: usize) {
        for i in (0..n).rev() {
            self.bit((v >> i) & 1 == 1);
        }
    }
    pub fn uvlc(&mut self, v: u32) {
        // value v is coded as (v+1) with leading zeros = floor(log2(v+1)); AV1 spec 4.10.3:
        // 32 leading zeros mean 2^32 - 1 and no value bits follow
        if v == u32::MAX {
            for _ in 0..32 {
                self.bit(false);
            }
            self.bit(true);
            return;
        }
        let x = v as u64 + 1;
        let lz = 63 - x.leading_zeros() as usize;
        for _ in 0..lz {
            self.bit(false);
        }
        self.bit(true);
        if lz > 0 {
            self.bits(x - (1 << lz), lz);
        }
    }
    /// trailing_bits(): a one then zeros to the byte boundary
    pub fn trailing(&mut self) {
        self.bit(true);
        while self.nbits % 8 != 0 {
            self.bit(false);
        }
    }
}

impl Default for BitW {
    fn default() -> Self {
        Self::new()
    }
}

/// Field values of an AV1 sequence header (AV1 spec section 5.5). Every branch of the syntax is
/// selectable; `write` emits exactly the spec's bit layout, so the expected av1C fields are known
/// by construction, without parsing.
#[derive(Clone, Debug, PartialEq, Eq, Hash, serde::Serialize, serde::Deserialize)]
pub struct SeqHdr {
    pub profile: u8,
    pub still: bool,
    pub reduced: bool,
    pub timing: bool,
    pub equal_picture_interval: bool,
    pub uvlc: u32,
    pub decoder_model: bool,
    pub display_delay: bool,
    pub op_count: u8,
    pub level: u8,
    pub tier: bool,
    pub op_decoder_model: bool,
    pub op_display_delay: bool,
    pub frame_id: bool,
    pub order_hint: bool,
    pub choose_screen: bool,
    pub force_screen: bool,
    pub choose_imv: bool,
    pub high_bitdepth: bool,
    pub twelve_bit: bool,
    pub mono: bool,
    /// 0 = absent, 1 = sRGB triple (1,13,0), 2 = BT.709 (1,1,1); 3..=6 = near misses of the sRGB
    /// triple that are *not* the special case: (1,13,1), (1,12,0), (2,13,0), (9,16,9)
    pub color_desc: u8,
    pub subx: bool,
    pub suby: bool,
    pub csp: u8,
    pub film_grain: bool,
}

impl Default for SeqHdr {
    fn default() -> Self {
        SeqHdr {
            profile: 0,
            still: false,
            reduced: false,
            timing: false,
            equal_picture_interval: false,
            uvlc: 0,
            decoder_model: false,
            display_delay: false,
            op_count: 1,
            level: 9,
            tier: false,
            op_decoder_model: false,
            op_display_delay: false,
            frame_id: false,
            order_hint: true,
            choose_screen: true,
            force_screen: false,
            choose_imv: true,
            high_bitdepth: false,
            twelve_bit: false,
            mono: false,
            color_desc: 0,
            subx: true,
            suby: true,
            csp: 0,
            film_grain: false,
        }
    }
}

/// What the av1C record must say for a header.
#[derive(Clone, Debug, PartialEq, Eq)]
pub struct Av1Expect {
    pub profile: u8,
    pub level: u8,
    pub tier: u8,
    pub high_bitdepth: bool,
    pub twelve_bit: bool,
    pub mono: bool,
    pub subx: bool,
    pub suby: bool,
    pub csp: u8,
}

impl SeqHdr {
    /// Normalise dependent fields so that the value describes a syntactically valid header.
    pub fn normalised(mut self) -> SeqHdr {
        if self.reduced {
            self.still = true;
            self.timing = false;
            self.decoder_model = false;
            self.display_delay = false;
            self.op_count = 1;
            self.tier = false;
            self.frame_id = false;
        }
        if !self.timing {
            self.decoder_model = false;
            self.equal_picture_interval = false;
        }
        if !self.equal_picture_interval {
            self.uvlc = 0;
        }
        if !self.decoder_model {
            self.op_decoder_model = false;
        }
        if !self.display_delay {
            self.op_display_delay = false;
        }
        if self.level <= 7 {
            self.tier = false;
        }
        if self.profile != 2 || !self.high_bitdepth {
            self.twelve_bit = false;
        }
        if self.profile == 1 {
            self.mono = false;
        }
        // derive subsampling exactly as color_config() prescribes
        let bit_depth12 = self.profile == 2 && self.twelve_bit;
        if self.mono {
            self.subx = true;
            self.suby = true;
            self.csp = 0;
        } else if self.color_desc == 1 {
            self.subx = false;
            self.suby = false;
            self.csp = 0;
        } else {
            match self.profile {
                0 => {
                    self.subx = true;
                    self.suby = true;
                }
                1 => {
                    self.subx = false;
                    self.suby = false;
                }
                _ => {
                    if bit_depth12 {
                        if !self.subx {
                            self.suby = false;
                        }
                    } else {
                        self.subx = true;
                        self.suby = false;
                    }
                }
            }
            if !(self.subx && self.suby) {
                self.csp = 0;
            }
        }
        self
    }

    pub fn expect(&self) -> Av1Expect {
        Av1Expect {
            profile: self.profile,
            level: self.level,
            tier: self.tier as u8,
            high_bitdepth: self.high_bitdepth,
            twelve_bit: self.twelve_bit,
            mono: self.mono,
            subx: self.subx,
            suby: self.suby,
            csp: self.csp,
        }
    }

    /// sequence_header_obu() payload, spec 5.5.1 / 5.5.2, with trailing bits.
    pub fn payload(&self) -> Vec<u8> {
        let mut w = BitW::new();
        w.bits(self.profile as u64, 3);
        w.bit(self.still);
        w.bit(self.reduced);
        if self.reduced {
            w.bits(self.level as u64, 5);
        } else {
            w.bit(self.timing);
            if self.timing {
                w.bits(1001, 32); // num_units_in_display_tick
                w.bits(30000, 32); // time_scale
                w.bit(self.equal_picture_interval);
                if self.equal_picture_interval {
                    w.uvlc(self.uvlc);
                }
                w.bit(self.decoder_model);
                if self.decoder_model {
                    w.bits(9, 5); // buffer_delay_length_minus_1 => 10 bits
                    w.bits(1, 32); // num_units_in_decoding_tick
                    w.bits(7, 5); // buffer_removal_time_length_minus_1
                    w.bits(11, 5); // frame_presentation_time_length_minus_1
                }
            }
            w.bit(self.display_delay);
            w.bits(self.op_count as u64 - 1, 5);
            for i in 0..self.op_count {
                w.bits(if i == 0 { 0x000 } else { 0x101 }, 12); // operating_point_idc
                // later operating points use a different level so that "first" matters
                let lvl = if i == 0 { self.level } else { (self.level + 3) % 24 };
                w.bits(lvl as u64, 5);
                if lvl > 7 {
                    w.bit(if i == 0 { self.tier } else { !self.tier });
                }
                if self.decoder_model {
                    w.bit(self.op_decoder_model);
                    if self.op_decoder_model {
                        w.bits(0x155, 10);
                        w.bits(0x2aa, 10);
                        w.bit(true);
                    }
                }
                if self.display_delay {
                    w.bit(self.op_display_delay);
                    if self.op_display_delay {
                        w.bits(5, 4);
                    }
                }
            }
        }
        w.bits(10, 4); // frame_width_bits_minus_1 => 11 bits
        w.bits(9, 4); // frame_height_bits_minus_1 => 10 bits
        w.bits(1279, 11);
        w.bits(719, 10);
        if !self.reduced {
            w.bit(self.frame_id);
            if self.frame_id {
                w.bits(3, 4);
                w.bits(2, 3);
            }
        }
        w.bit(false); // use_128x128_superblock
        w.bit(true); // enable_filter_intra
        w.bit(true); // enable_intra_edge_filter
        if !self.reduced {
            w.bit(true); // interintra
            w.bit(false); // masked
            w.bit(true); // warped
            w.bit(true); // dual filter
            w.bit(self.order_hint);
            if self.order_hint {
                w.bit(true); // jnt_comp
                w.bit(false); // ref_frame_mvs
            }
            w.bit(self.choose_screen);
            let force = if self.choose_screen {
                2
            } else {
                w.bit(self.force_screen);
                self.force_screen as u8
            };
            if force > 0 {
                w.bit(self.choose_imv);
                if !self.choose_imv {
                    w.bit(true);
                }
            }
            if self.order_hint {
                w.bits(6, 3);
            }
        }
        w.bit(true); // superres
        w.bit(false); // cdef
        w.bit(true); // restoration
        // color_config
        w.bit(self.high_bitdepth);
        if self.profile == 2 && self.high_bitdepth {
            w.bit(self.twelve_bit);
        }
        if self.profile != 1 {
            w.bit(self.mono);
        }
        w.bit(self.color_desc != 0);
        let (cp, tc, mc) = match self.color_desc {
            1 => (1u8, 13u8, 0u8),
            2 => (1, 1, 1),
            3 => (1, 13, 1),
            4 => (1, 12, 0),
            5 => (2, 13, 0),
            6 => (9, 16, 9),
            _ => (2, 2, 2),
        };
        if self.color_desc != 0 {
            w.bits(cp as u64, 8);
            w.bits(tc as u64, 8);
            w.bits(mc as u64, 8);
        }
        if self.mono {
            w.bit(true); // color_range
        } else {
            if cp == 1 && tc == 13 && mc == 0 {
                // sRGB: nothing coded
            } else {
                w.bit(false); // color_range
                if self.profile == 2 && self.twelve_bit {
                    w.bit(self.subx);
                    if self.subx {
                        w.bit(self.suby);
                    }
                }
                if self.subx && self.suby {
                    w.bits(self.csp as u64, 2);
                }
            }
            w.bit(true); // separate_uv_delta_q
        }
        w.bit(self.film_grain);
        w.trailing();
        w.bytes
    }
}

pub fn leb128(mut v: usize) -> Vec<u8> {
    let mut o = vec![];
    loop {
        let b = (v & 0x7f) as u8;
        v >>= 7;
        if v == 0 {
            o.push(b);
            return o;
        }
        o.push(b | 0x80);
    }
}

/// An OBU: header (type, optional extension byte, optional size field) + payload.
pub fn obu(typ: u8, ext: bool, size_field: bool, payload: &[u8]) -> Vec<u8> {
    let mut o = vec![(typ << 3) | if ext { 4 } else { 0 } | if size_field { 2 } else { 0 }];
    if ext {
        o.push(0x00);
    }
    if size_field {
        o.extend(leb128(payload.len()));
    }
    o.extend_from_slice(payload);
    o
}

pub fn av1_seq_obu(h: &SeqHdr) -> Vec<u8> {
    obu(1, false, true, &h.payload())
}

pub fn av1_frame(key: bool, with_seq: bool, tag: u32, len: usize) -> Vec<u8> {
    let mut o = obu(2, false, true, &[]); // temporal delimiter
    if with_seq {
        o.extend(av1_seq_obu(&SeqHdr::default().normalised()));
    }
    // frame OBU: show_existing_frame = 0, frame_type = 0 (key) / 1 (inter)
    let mut p = vec![if key { 0x10 } else { 0x30 }];
    p.extend(body(tag, len.max(1)));
    o.extend(obu(6, false, true, &p));
    o
}

// ---------------------------------------------------------------------------------------------
// VP9, in the form muxide's extractor accepts
// ---------------------------------------------------------------------------------------------

#[derive(Clone, Debug, PartialEq, Eq, Hash)]
pub struct Vp9Hdr {
    pub profile: u8,
    pub ten_bit: bool,
    pub color_space: u8,
    pub transfer: u8,
    pub matrix: u8,
    pub full_range: bool,
    pub width: u32,
    pub height: u32,
    /// Some((w, h)) => a render-size block precedes the colour byte
    pub render: Option<(u32, u32)>,
}

impl Default for Vp9Hdr {
    fn default() -> Self {
        Vp9Hdr { profile: 0, ten_bit: false, color_space: 1, transfer: 1, matrix: 0, full_range: false, width: 1280, height: 720, render: None }
    }
}

pub fn varuint7(mut v: u32) -> Vec<u8> {
    let mut o = vec![];
    loop {
        let b = (v & 0x7f) as u8;
        v >>= 7;
        if v == 0 {
            o.push(b);
            return o;
        }
        o.push(b | 0x80);
    }
}

impl Vp9Hdr {
    /// Without a render block the colour byte doubles as the "render size differs" probe
    /// (bits 2-3 must be clear), so only colour spaces 0 and 1 are expressible there.
    pub fn valid(&self) -> bool {
        self.profile <= 3 && self.color_space <= 7 && self.transfer <= 7 && self.matrix <= 1 && (self.render.is_some() || self.color_space & 0b110 == 0)
    }
    pub fn header(&self, key: bool) -> Vec<u8> {
        let mut o = vec![0x49, 0x83, 0x42];
        o.push((self.profile << 6) | if key { 0 } else { 0x10 });
        o.push(0x5a); // ignored byte
        if self.profile >= 2 {
            o.push(0x77);
        }
        o.extend(varuint7(self.width));
        o.extend(varuint7(self.height));
        if let Some((rw, rh)) = self.render {
            o.push(0x0c);
            o.extend(varuint7(rw));
            o.extend(varuint7(rh));
        }
        o.push((self.ten_bit as u8) | (self.color_space << 1) | (self.transfer << 4) | (self.matrix << 7));
        o.push(0x10 | self.full_range as u8);
        o
    }
}

pub fn vp9_frame(key: bool, tag: u32, len: usize) -> Vec<u8> {
    let mut o = Vp9Hdr::default().header(key);
    o.extend(body(tag, len.max(1)));
    o
}

// ---------------------------------------------------------------------------------------------
// Generic "video frame for codec"
// ---------------------------------------------------------------------------------------------

/// Like `video_frame`, but the carried configuration differs per `variant` (different SPS/PPS/VPS
/// bytes, AV1 level, VP9 profile), so that "which keyframe did the config come from" is visible.
pub fn video_frame_variant(codec: VCodec, key: bool, with_cfg: bool, tag: u32, len: usize, variant: u8) -> (Vec<u8>, Vec<u8>) {
    if variant == 0 || !with_cfg {
        return video_frame(codec, key, with_cfg, tag, len);
    }
    match codec {
        VCodec::H264 => {
            let mut s = vec![if key { 0x65 } else { 0x41 }];
            s.extend(body(tag, len.max(1)));
            // the order of the parameter sets varies too (any order before the slice is legal)
            let u = if variant % 2 == 0 { vec![h264_pps(variant), h264_sps(variant), s] } else { vec![h264_sps(variant), h264_pps(variant), s] };
            (annexb_mode(&u, tag), length_prefixed(&u))
        }
        VCodec::H265 => {
            let mut s = vec![if key { [0x26, 0x28, 0x2a][tag as usize % 3] } else { 0x02 }, 0x01];
            s.extend(body(tag, len.max(1)));
            let (v, sp, pp) = (h265_vps(variant), h265_sps(variant), h265_pps(variant));
            let u = match variant % 3 {
                0 => vec![pp, sp, v, s],
                1 => vec![sp, pp, v, s],
                _ => vec![v, pp, sp, s],
            };
            (annexb_mode(&u, tag), length_prefixed(&u))
        }
        VCodec::Av1 => {
            let mut o = obu(2, false, true, &[]);
            o.extend(av1_seq_obu(&SeqHdr { level: 9 + variant, ..SeqHdr::default() }.normalised()));
            let mut p = vec![if key { 0x10 } else { 0x30 }];
            p.extend(body(tag, len.max(1)));
            o.extend(obu(6, false, true, &p));
            (o.clone(), o)
        }
        VCodec::Vp9 => {
            let mut o = Vp9Hdr { profile: variant % 4, ..Default::default() }.header(key);
            o.extend(body(tag, len.max(1)));
            (o.clone(), o)
        }
    }
}

/// (bytes to submit, bytes the file must hold for that sample)
pub fn video_frame(codec: VCodec, key: bool, with_cfg: bool, tag: u32, len: usize) -> (Vec<u8>, Vec<u8>) {
    match codec {
        VCodec::H264 | VCodec::H265 => {
            let u = nal_units(codec, key, with_cfg, tag, len);
            (annexb_mode(&u, tag), length_prefixed(&u))
        }
        VCodec::Av1 => {
            let f = av1_frame(key, with_cfg, tag, len);
            (f.clone(), f)
        }
        VCodec::Vp9 => {
            let f = vp9_frame(key, tag, len);
            (f.clone(), f)
        }
    }
}

// ---------------------------------------------------------------------------------------------
// Audio
// ---------------------------------------------------------------------------------------------

pub const AAC_RATES: [u32; 13] = [96000, 88200, 64000, 48000, 44100, 32000, 24000, 22050, 16000, 12000, 11025, 8000, 7350];

#[derive(Clone, Debug, PartialEq, Eq)]
pub struct AdtsHdr {
    pub sync: u16, // 12 bits
    pub id: u8,    // 0 = MPEG-4
    pub layer: u8,
    pub protection_absent: bool,
    pub profile: u8,
    pub sfi: u8,
    pub private: bool,
    pub chan: u8,
    pub frame_length: u16, // 13 bits
    pub fullness: u16,     // 11 bits
    pub blocks: u8,
}

impl Default for AdtsHdr {
    fn default() -> Self {
        AdtsHdr { sync: 0xfff, id: 0, layer: 0, protection_absent: true, profile: 1, sfi: 3, private: false, chan: 2, frame_length: 0, fullness: 0x7ff, blocks: 0 }
    }
}

impl AdtsHdr {
    pub fn bytes(&self) -> Vec<u8> {
        let mut w = BitW::new();
        w.bits(self.sync as u64, 12);
        w.bits(self.id as u64, 1);
        w.bits(self.layer as u64, 2);
        w.bit(self.protection_absent);
        w.bits(self.profile as u64, 2);
        w.bits(self.sfi as u64, 4);
        w.bit(self.private);
        w.bits(self.chan as u64, 3);
        w.bits(0, 4); // original/copy, home, copyright id bit, copyright id start
        w.bits(self.frame_length as u64, 13);
        w.bits(self.fullness as u64, 11);
        w.bits(self.blocks as u64, 2);
        if !self.protection_absent {
            w.bits(0xbeef, 16);
        }
        w.bytes
    }
}

/// (ADTS frame, raw AAC payload)
pub fn adts_frame(tag: u32, len: usize, protected: bool) -> (Vec<u8>, Vec<u8>) {
    let payload = body(tag.wrapping_add(0x51), len.max(1));
    let hl = if protected { 9 } else { 7 };
    let h = AdtsHdr { protection_absent: !protected, frame_length: (hl + payload.len()) as u16, ..Default::default() };
    let mut f = h.bytes();
    f.extend_from_slice(&payload);
    (f, payload)
}

pub fn opus_packet(tag: u32, len: usize) -> Vec<u8> {
    // TOC: the configuration (and with it the coded duration: 60, 20, 2.5, 10 ms under RFC 6716)
    // varies with the tag; three of four packets are code 0 (one frame), the fourth is a code-3
    // packet (TOC 0x03) with its frame-count byte (one CBR frame)
    let cfg = [15u8, 4, 24, 0][(tag % 4) as usize];
    let mut p = if tag % 4 == 3 { vec![(cfg << 3) | 3, 0x01] } else { vec![cfg << 3] };
    // len 0: the shortest packets there are - a lone TOC byte (code 0, an empty frame: DTX) or TOC
    // plus count byte (code 3)
    p.extend(body(tag.wrapping_add(0x23), len));
    p
}

/// (bytes to submit, bytes the file must hold)
pub fn audio_frame(codec: ACodec, tag: u32, len: usize) -> (Vec<u8>, Vec<u8>) {
    if codec.is_aac() {
        adts_frame(tag, len, tag % 3 == 2)
    } else {
        let p = opus_packet(tag, len);
        (p.clone(), p)
    }
}
