//! Small executable reference models, written from the property statements and the public
//! documentation, never from muxide's source.

/// Exact round-half-away-from-zero of `x * 90000` for a finite non-negative f64, computed in
/// integer arithmetic from the mantissa and exponent. Returns (tick, distance_from_tie) where the
/// second component is |frac - 0.5| scaled to [0, 0.5]; generators assert it is not tiny so the
/// oracle never depends on how a tie (or an f64 product one ulp away from a tie) rounds.
pub fn tick_exact(x: f64) -> (u128, f64) {
    assert!(x.is_finite() && x >= 0.0);
    if x == 0.0 {
        return (0, 0.5);
    }
    let bits = x.to_bits();
    let exp = ((bits >> 52) & 0x7ff) as i64;
    let frac = bits & ((1u64 << 52) - 1);
    let (m, e) = if exp == 0 { (frac, -1074i64) } else { (frac | (1u64 << 52), exp - 1075) };
    let num = m as u128 * 90000u128;
    if e >= 0 {
        if e > 40 {
            return (u128::MAX, 0.5);
        }
        return (num << e, 0.5);
    }
    let sh = (-e) as u32;
    if sh >= 120 {
        return (0, 0.5);
    }
    let q = num >> sh;
    let r = num & ((1u128 << sh) - 1);
    let half = 1u128 << (sh - 1);
    let fr = r as f64 / (1u128 << sh) as f64;
    let t = if r >= half { q + 1 } else { q };
    (t, (fr - 0.5).abs())
}

/// tick as u64 with saturation like a float-to-int cast of the exact value
pub fn tick(x: f64) -> u64 {
    let (t, _) = tick_exact(x);
    if t > u64::MAX as u128 { u64::MAX } else { t as u64 }
}

/// true when `x` is a safe alphabet member: its tick does not depend on tie handling
pub fn tick_is_robust(x: f64) -> bool {
    let (_, d) = tick_exact(x);
    d > 1e-6
}

// ---------------------------------------------------------------------------------------------
// Annex B reference splitter (from the statement of C14)
// ---------------------------------------------------------------------------------------------

/// Units of an Annex B string: the byte runs that follow each 3- or 4-byte start code up to the
/// next start code or the end of input. A start code is an occurrence of 00 00 01; it absorbs one
/// preceding 00 when that byte exists and was not already consumed by the previous start code.
pub fn annexb_units(d: &[u8]) -> Vec<&[u8]> {
    // positions of every 00 00 01 (they cannot overlap: each ends in 01 and begins with 00)
    let mut marks: Vec<(usize, usize)> = vec![]; // (start incl. absorbed zero, end)
    let mut i = 0;
    let mut consumed = 0usize; // bytes [0, consumed) belong to previous start codes
    while i + 3 <= d.len() {
        if d[i] == 0 && d[i + 1] == 0 && d[i + 2] == 1 {
            let mut s = i;
            if s > consumed && d[s - 1] == 0 {
                s -= 1;
            }
            marks.push((s, i + 3));
            consumed = i + 3;
            i += 3;
        } else {
            i += 1;
        }
    }
    let mut units = vec![];
    for (k, &(_, e)) in marks.iter().enumerate() {
        let next = if k + 1 < marks.len() { marks[k + 1].0 } else { d.len() };
        units.push(&d[e..next]);
    }
    units
}

/// Expected length-prefixed conversion per C14: non-empty units with 4-byte big-endian lengths;
/// the whole input as one unit when that yields nothing (and the input is non-empty).
pub fn annexb_to_lp(d: &[u8]) -> Vec<u8> {
    let mut o = vec![];
    for u in annexb_units(d) {
        if u.is_empty() {
            continue;
        }
        o.extend_from_slice(&(u.len() as u32).to_be_bytes());
        o.extend_from_slice(u);
    }
    if o.is_empty() && !d.is_empty() {
        o.extend_from_slice(&(d.len() as u32).to_be_bytes());
        o.extend_from_slice(d);
    }
    o
}

/// Parse a 4-byte length-prefixed string back into units; None if it does not parse to its end.
pub fn parse_lp(d: &[u8]) -> Option<Vec<&[u8]>> {
    let mut out = vec![];
    let mut p = 0;
    while p < d.len() {
        if p + 4 > d.len() {
            return None;
        }
        let l = u32::from_be_bytes([d[p], d[p + 1], d[p + 2], d[p + 3]]) as usize;
        p += 4;
        if p + l > d.len() {
            return None;
        }
        out.push(&d[p..p + l]);
        p += l;
    }
    Some(out)
}

// ---------------------------------------------------------------------------------------------
// ADTS reference parser
// ---------------------------------------------------------------------------------------------

#[derive(Clone, Debug, PartialEq, Eq)]
pub enum Adts {
    /// structurally valid; payload range inside the buffer
    Valid { header_len: usize, frame_len: usize },
    Invalid(&'static str),
}

/// Structural validity as the property (C04/C14) states it: 12-bit sync word, MPEG-4 id, layer 0,
/// sampling-frequency index <= 12, channel configuration 1..=7, header length 7/9 by the
/// protection flag, header <= frame_length <= buffer length.
pub fn adts_parse(f: &[u8]) -> Adts {
    if f.len() < 7 {
        return Adts::Invalid("short");
    }
    if f[0] != 0xff || f[1] & 0xf0 != 0xf0 {
        return Adts::Invalid("sync");
    }
    if f[1] & 0x08 != 0 {
        return Adts::Invalid("mpeg2");
    }
    if f[1] & 0x06 != 0 {
        return Adts::Invalid("layer");
    }
    let hl = if f[1] & 1 == 1 { 7 } else { 9 };
    if f.len() < hl {
        return Adts::Invalid("short-header");
    }
    let sfi = (f[2] >> 2) & 0x0f;
    if sfi > 12 {
        return Adts::Invalid("sfi");
    }
    let ch = ((f[2] & 1) << 2) | (f[3] >> 6);
    if ch == 0 {
        return Adts::Invalid("chan");
    }
    let fl = (((f[3] & 3) as usize) << 11) | ((f[4] as usize) << 3) | ((f[5] as usize) >> 5);
    if fl < hl {
        return Adts::Invalid("frame-length-small");
    }
    if fl > f.len() {
        return Adts::Invalid("frame-length-large");
    }
    Adts::Valid { header_len: hl, frame_len: fl }
}

// ---------------------------------------------------------------------------------------------
// Opus framing as anchored by C04
// ---------------------------------------------------------------------------------------------

/// Non-empty, and for code-3 packets a frame-count byte with M >= 1. (RFC 6716 R2-R7 length
/// rules are not demanded: the property does not state them.)
pub fn opus_valid(p: &[u8]) -> bool {
    if p.is_empty() {
        return false;
    }
    if p[0] & 3 == 3 {
        if p.len() < 2 {
            return false;
        }
        return p[1] & 0x3f != 0;
    }
    true
}

// ---------------------------------------------------------------------------------------------
// Calendar (Howard Hinnant's civil_from_days), independent of muxide's year loop
// ---------------------------------------------------------------------------------------------

pub fn civil_from_days(z: i64) -> (i64, u32, u32) {
    let z = z + 719_468;
    let era = z.div_euclid(146_097);
    let doe = z.rem_euclid(146_097);
    let yoe = (doe - doe / 1_460 + doe / 36_524 - doe / 146_096) / 365;
    let y = yoe + era * 400;
    let doy = doe - (365 * yoe + yoe / 4 - yoe / 100);
    let mp = (5 * doy + 2) / 153;
    let d = (doy - (153 * mp + 2) / 5 + 1) as u32;
    let m = if mp < 10 { mp + 3 } else { mp - 9 } as u32;
    (if m <= 2 { y + 1 } else { y }, m, d)
}

pub fn iso8601(unix: u64) -> String {
    let days = (unix / 86_400) as i64;
    let s = unix % 86_400;
    let (y, m, d) = civil_from_days(days);
    format!("{:04}-{:02}-{:02}T{:02}:{:02}:{:02}Z", y, m, d, s / 3600, (s % 3600) / 60, s % 60)
}

/// days in month, by the Gregorian rule (a second, table-free cross-check of the calendar)
pub fn is_leap(y: i64) -> bool {
    (y % 4 == 0 && y % 100 != 0) || y % 400 == 0
}

#[cfg(test)]
mod tests {
    use super::*;
    #[test]
    fn ticks() {
        assert_eq!(tick(0.0), 0);
        assert_eq!(tick(1.0), 90000);
        assert_eq!(tick(1.0 / 30.0), 3000);
        assert_eq!(tick(1001.0 / 30000.0), 3003);
        assert_eq!(tick(2.0_f64.powi(32) / 90000.0), 1 << 32);
    }
    #[test]
    fn splitter() {
        assert_eq!(annexb_units(&[0, 0, 1, 5, 0, 0, 0, 1, 6]), vec![&[5u8][..], &[6u8][..]]);
        let e: &[u8] = &[];
        assert_eq!(annexb_units(&[0, 0, 1, 0, 0, 1]), vec![e, e]);
        assert_eq!(annexb_units(&[0, 0, 1, 0, 0, 0, 1, 7]), vec![e, &[7u8][..]]);
        assert_eq!(annexb_units(&[9, 0, 0, 0, 0, 1, 7]), vec![&[7u8][..]]);
        assert_eq!(annexb_units(&[0, 0, 1, 9, 0, 0, 0, 0, 1, 7]), vec![&[9u8, 0][..], &[7u8][..]]);
    }
    #[test]
    fn calendar() {
        assert_eq!(iso8601(0), "1970-01-01T00:00:00Z");
        assert_eq!(iso8601(951_782_400), "2000-02-29T00:00:00Z");
        assert_eq!(iso8601(253_402_300_799), "9999-12-31T23:59:59Z");
        assert_eq!(iso8601(1_234_567_890), "2009-02-13T23:31:30Z");
    }
}
