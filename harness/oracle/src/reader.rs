//! Independent strict ISO-BMFF / fMP4 reader.
//!
//! Written from ISO/IEC 14496-12 (box structure, header boxes, sample tables, movie fragments),
//! 14496-14 (esds), 14496-15 (avcC/hvcC), the AV1, VP9 and Opus ISO-BMFF bindings. It shares no
//! code with muxide. Every departure from the specifications is recorded as a `Problem` with a
//! stable signature; the reader keeps going wherever it can so that one defect does not mask
//! the others.

use std::fmt::Write as _;

pub type Fourcc = [u8; 4];

pub fn fcc(t: &Fourcc) -> String {
    t.iter()
        .map(|&b| if (0x20..0x7f).contains(&b) { b as char } else { '?' })
        .collect()
}

#[derive(Clone, Copy, PartialEq, Eq, Debug, Hash, PartialOrd, Ord)]
pub enum Class {
    /// box sizes do not tile their parent / truncated payload
    Tile,
    /// mandatory box missing, duplicated, wrong top-level arrangement
    Mandatory,
    /// table entry counts inconsistent with each other or with the box size
    Count,
    /// fixed-layout field departs from its specification (size, version, flags, reserved bits…)
    Spec,
}

#[derive(Clone, Debug, PartialEq, Eq, Hash, PartialOrd, Ord)]
pub struct Problem {
    pub class: Class,
    pub sig: String,
    pub detail: String,
}

#[derive(Default, Clone, Debug)]
pub struct Probs(pub Vec<Problem>);

impl Probs {
    pub fn add(&mut self, class: Class, sig: impl Into<String>, detail: impl Into<String>) {
        self.0.push(Problem { class, sig: sig.into(), detail: detail.into() });
    }
    pub fn of(&self, classes: &[Class]) -> Vec<&Problem> {
        self.0.iter().filter(|p| classes.contains(&p.class)).collect()
    }
}

#[derive(Clone, Debug)]
pub struct Bx {
    pub typ: Fourcc,
    pub start: usize,
    pub end: usize,
    /// 8, or 16 when the box uses the 64-bit largesize form (size field 1)
    pub hdr: usize,
}

impl Bx {
    pub fn pstart(&self) -> usize {
        self.start + self.hdr
    }
    pub fn size(&self) -> usize {
        self.end - self.start
    }
    pub fn is(&self, t: &[u8; 4]) -> bool {
        &self.typ == t
    }
}

fn be16(d: &[u8], p: usize) -> u16 {
    u16::from_be_bytes([d[p], d[p + 1]])
}
fn be32(d: &[u8], p: usize) -> u32 {
    u32::from_be_bytes([d[p], d[p + 1], d[p + 2], d[p + 3]])
}
fn be64(d: &[u8], p: usize) -> u64 {
    ((be32(d, p) as u64) << 32) | be32(d, p + 4) as u64
}

/// Strict tiling of `[start, end)` by 32-bit-size boxes.
pub fn children(d: &[u8], start: usize, end: usize, path: &str, pr: &mut Probs) -> Vec<Bx> {
    let mut out = Vec::new();
    let mut pos = start;
    while pos < end {
        if end - pos < 8 {
            pr.add(Class::Tile, format!("{path}/slack"), format!("{} stray bytes at {pos}", end - pos));
            break;
        }
        let mut size = be32(d, pos) as usize;
        let typ: Fourcc = [d[pos + 4], d[pos + 5], d[pos + 6], d[pos + 7]];
        let mut hdr = 8;
        if size == 1 && end - pos >= 16 {
            // ISO 14496-12 4.2: size 1 = the actual size is in the 64-bit largesize field
            let large = be64(d, pos + 8);
            if large >= 16 && large <= (end - pos) as u64 {
                size = large as usize;
                hdr = 16;
            }
        }
        if size < 8 {
            pr.add(Class::Tile, format!("{path}/{}/size<8", fcc(&typ)), format!("size {size} at {pos}"));
            break;
        }
        if pos + size > end {
            pr.add(
                Class::Tile,
                format!("{path}/{}/overrun", fcc(&typ)),
                format!("size {size} at {pos} exceeds parent end {end}"),
            );
            break;
        }
        out.push(Bx { typ, start: pos, end: pos + size, hdr });
        pos += size;
    }
    out
}

fn one<'a>(kids: &'a [Bx], t: &[u8; 4], path: &str, pr: &mut Probs) -> Option<&'a Bx> {
    let v: Vec<&Bx> = kids.iter().filter(|b| b.is(t)).collect();
    match v.len() {
        0 => {
            pr.add(Class::Mandatory, format!("{path}/missing/{}", fcc(t)), "mandatory box missing");
            None
        }
        1 => Some(v[0]),
        n => {
            pr.add(Class::Mandatory, format!("{path}/dup/{}", fcc(t)), format!("{n} instances"));
            Some(v[0])
        }
    }
}

fn opt<'a>(kids: &'a [Bx], t: &[u8; 4], path: &str, pr: &mut Probs) -> Option<&'a Bx> {
    let v: Vec<&Bx> = kids.iter().filter(|b| b.is(t)).collect();
    if v.len() > 1 {
        pr.add(Class::Mandatory, format!("{path}/dup/{}", fcc(t)), format!("{} instances", v.len()));
    }
    v.first().copied()
}

// ---------------------------------------------------------------------------------------------
// Parsed structures
// ---------------------------------------------------------------------------------------------

#[derive(Clone, Debug, Default, PartialEq, Eq)]
pub struct Mvhd {
    pub version: u8,
    pub timescale: u32,
    pub duration: u64,
    pub next_track_id: u32,
}

#[derive(Clone, Debug, Default, PartialEq, Eq)]
pub struct Tkhd {
    pub size: usize,
    pub version: u8,
    pub flags: u32,
    pub track_id: u32,
    pub duration: u64,
    pub volume: u16,
    pub matrix_identity: bool,
    /// 16.16 fixed point as stored
    pub width_fixed: u32,
    pub height_fixed: u32,
}

#[derive(Clone, Debug, Default, PartialEq, Eq)]
pub struct Mdhd {
    pub version: u8,
    pub timescale: u32,
    pub duration: u64,
    pub language: String,
    pub lang_raw: u16,
}

#[derive(Clone, Debug, PartialEq, Eq)]
pub enum CodecCfg {
    Avc { profile: u8, compat: u8, level: u8, length_size: u8, sps: Vec<Vec<u8>>, pps: Vec<Vec<u8>> },
    Hevc { raw: Vec<u8>, length_size: u8, arrays: Vec<(u8, Vec<Vec<u8>>)> },
    Av1 {
        marker_version: u8,
        seq_profile: u8,
        seq_level_idx: u8,
        seq_tier: u8,
        high_bitdepth: bool,
        twelve_bit: bool,
        monochrome: bool,
        subx: bool,
        suby: bool,
        csp: u8,
        config_obus: Vec<u8>,
    },
    /// `fields` = payload bytes as found; decoded per the binding when the layout is right
    Vp9 { fullbox: bool, profile: u8, level: u8, bit_depth: u8, chroma: u8, full_range: u8, cp: u8, tc: u8, mc: u8, raw: Vec<u8> },
    Esds { object_type: u8, stream_type_byte: u8, asc: Vec<u8> },
    Dops { version: u8, channels: u8, pre_skip: u16, rate: u32, gain: i16, family: u8, raw: Vec<u8> },
    None,
}

#[derive(Clone, Debug, PartialEq, Eq)]
pub struct SampleEntry {
    pub format: Fourcc,
    pub data_ref_index: u16,
    /// visual
    pub width: u16,
    pub height: u16,
    /// audio
    pub channels: u16,
    pub sample_size: u16,
    pub rate_fixed: u32,
    pub cfg: CodecCfg,
    pub cfg_box: Fourcc,
    /// raw bytes of the whole entry
    pub raw: Vec<u8>,
}

#[derive(Clone, Debug, Default, PartialEq, Eq)]
pub struct Elst {
    pub version: u8,
    /// (segment_duration, media_time, rate_int, rate_frac)
    pub entries: Vec<(u64, i64, i16, i16)>,
}

#[derive(Clone, Debug)]
pub struct Track {
    pub tkhd: Tkhd,
    pub mdhd: Mdhd,
    pub handler: Fourcc,
    pub media_header: Fourcc,
    pub entry: Option<SampleEntry>,
    pub stts: Vec<(u32, u32)>,
    pub ctts: Option<(u8, Vec<(u32, i64)>)>,
    pub stsc: Vec<(u32, u32, u32)>,
    pub stsz_uniform: u32,
    pub stsz: Vec<u32>,
    pub stsz_count: u32,
    pub stco: Vec<u64>,
    pub stco_pos: Vec<usize>,
    /// chunk offsets come from a co64 box (8 bytes each)
    pub co64: bool,
    pub stss: Option<Vec<u32>>,
    pub elst: Option<Elst>,
    pub trak: Bx,
    pub mdhd_lang_pos: usize,
}

#[derive(Clone, Debug, PartialEq, Eq)]
pub struct IlstItem {
    pub key: Fourcc,
    pub data_type: u32,
    pub locale: u32,
    pub value: Vec<u8>,
}

#[derive(Clone, Debug, Default)]
pub struct Udta {
    pub meta_handler: Option<Fourcc>,
    pub items: Vec<IlstItem>,
    pub range: (usize, usize),
}

#[derive(Clone, Debug, Default, PartialEq, Eq)]
pub struct Trex {
    pub track_id: u32,
    pub default_desc_index: u32,
    pub default_duration: u32,
    pub default_size: u32,
    pub default_flags: u32,
}

#[derive(Clone, Debug)]
pub struct Movie {
    pub top: Vec<Bx>,
    pub ftyp: Option<(Fourcc, u32, Vec<Fourcc>)>,
    pub mvhd: Option<Mvhd>,
    pub tracks: Vec<Track>,
    pub udta: Option<Udta>,
    pub trex: Vec<Trex>,
    pub moov: Option<Bx>,
    /// payload range of mdat
    pub mdat: Option<(usize, usize)>,
    pub probs: Probs,
}

#[derive(Clone, Debug, PartialEq, Eq)]
pub struct SampleLoc {
    pub offset: u64,
    pub size: u32,
    pub dts: u64,
    pub dur: u32,
    pub cts: i64,
    pub sync: bool,
}

// ---------------------------------------------------------------------------------------------
// Helpers for fixed-layout checks
// ---------------------------------------------------------------------------------------------

struct Ck<'a> {
    d: &'a [u8],
    b: &'a Bx,
    path: String,
}

impl<'a> Ck<'a> {
    fn new(d: &'a [u8], b: &'a Bx, path: &str) -> Self {
        Ck { d, b, path: path.to_string() }
    }
    fn plen(&self) -> usize {
        self.b.end - self.b.pstart()
    }
    fn has(&self, off: usize, n: usize) -> bool {
        off + n <= self.plen()
    }
    fn u8(&self, off: usize) -> u8 {
        if self.has(off, 1) { self.d[self.b.pstart() + off] } else { 0 }
    }
    fn u16(&self, off: usize) -> u16 {
        if self.has(off, 2) { be16(self.d, self.b.pstart() + off) } else { 0 }
    }
    fn u32(&self, off: usize) -> u32 {
        if self.has(off, 4) { be32(self.d, self.b.pstart() + off) } else { 0 }
    }
    fn u64(&self, off: usize) -> u64 {
        if self.has(off, 8) { be64(self.d, self.b.pstart() + off) } else { 0 }
    }
    fn bytes(&self, off: usize, n: usize) -> &'a [u8] {
        if self.has(off, n) { &self.d[self.b.pstart() + off..self.b.pstart() + off + n] } else { &[] }
    }
    fn version(&self) -> u8 {
        self.u8(0)
    }
    fn flags(&self) -> u32 {
        self.u32(0) & 0x00ff_ffff
    }
    fn expect_size(&self, want: usize, pr: &mut Probs) -> bool {
        if self.b.size() != want {
            pr.add(
                Class::Spec,
                format!("{}/size={}", self.path, self.b.size()),
                format!("box size {} but the specification prescribes {want}", self.b.size()),
            );
            false
        } else {
            true
        }
    }
    fn expect(&self, ok: bool, field: &str, detail: String, pr: &mut Probs) {
        if !ok {
            pr.add(Class::Spec, format!("{}/{}", self.path, field), detail);
        }
    }
    fn zero(&self, off: usize, n: usize, field: &str, pr: &mut Probs) {
        let z = self.bytes(off, n);
        if z.len() != n || z.iter().any(|&b| b != 0) {
            pr.add(Class::Spec, format!("{}/{}", self.path, field), format!("reserved bytes at +{off} not zero: {z:02x?}"));
        }
    }
}

const IDENTITY: [u32; 9] = [0x0001_0000, 0, 0, 0, 0x0001_0000, 0, 0, 0, 0x4000_0000];

fn matrix_at(c: &Ck, off: usize) -> bool {
    (0..9).all(|i| c.has(off + 4 * i, 4) && c.u32(off + 4 * i) == IDENTITY[i])
}

fn unpack_lang(v: u16) -> String {
    let mut s = String::new();
    for sh in [10, 5, 0] {
        let c = ((v >> sh) & 0x1f) as u8;
        s.push((c + 0x60) as char);
    }
    s
}

// ---------------------------------------------------------------------------------------------
// Movie parsing
// ---------------------------------------------------------------------------------------------

/// `kind`: "prog" for a progressive file, "init" for an fMP4 init segment; used as the signature
/// prefix and to decide which top-level arrangement is demanded.
pub fn parse_movie(d: &[u8], kind: &str) -> Movie {
    let mut pr = Probs::default();
    let top = children(d, 0, d.len(), "", &mut pr);
    let mut m = Movie {
        top: top.clone(),
        ftyp: None,
        mvhd: None,
        tracks: Vec::new(),
        udta: None,
        trex: Vec::new(),
        moov: None,
        mdat: None,
        probs: Probs::default(),
    };

    // top-level arrangement
    match top.first() {
        Some(b) if b.is(b"ftyp") => {}
        _ => pr.add(Class::Mandatory, "/top/ftyp-not-first", "first box is not ftyp"),
    }
    let n_ftyp = top.iter().filter(|b| b.is(b"ftyp")).count();
    let n_moov = top.iter().filter(|b| b.is(b"moov")).count();
    let n_mdat = top.iter().filter(|b| b.is(b"mdat")).count();
    if n_ftyp != 1 {
        pr.add(Class::Mandatory, "/top/ftyp-count", format!("{n_ftyp} ftyp boxes"));
    }
    if n_moov != 1 {
        pr.add(Class::Mandatory, "/top/moov-count", format!("{n_moov} moov boxes"));
    }
    if n_mdat > 1 || (kind == "init" && n_mdat > 0) {
        pr.add(Class::Mandatory, "/top/mdat-count", format!("{n_mdat} mdat boxes"));
    }
    for b in &top {
        if !(b.is(b"ftyp") || b.is(b"moov") || b.is(b"mdat")) {
            pr.add(Class::Mandatory, format!("/top/unexpected/{}", fcc(&b.typ)), "unexpected top-level box");
        }
    }

    if let Some(b) = top.iter().find(|b| b.is(b"ftyp")) {
        let c = Ck::new(d, b, &format!("{kind}/ftyp"));
        let pl = c.plen();
        if pl < 8 || (pl - 8) % 4 != 0 {
            pr.add(Class::Spec, format!("{kind}/ftyp/size={}", b.size()), "ftyp payload is not 8 + 4k bytes");
        } else {
            let major: Fourcc = c.bytes(0, 4).try_into().unwrap();
            let minor = c.u32(4);
            let compat: Vec<Fourcc> = (0..(pl - 8) / 4).map(|i| c.bytes(8 + 4 * i, 4).try_into().unwrap()).collect();
            m.ftyp = Some((major, minor, compat));
        }
    }
    if let Some(b) = top.iter().find(|b| b.is(b"mdat")) {
        m.mdat = Some((b.pstart(), b.end));
    }
    if let Some(moov) = top.iter().find(|b| b.is(b"moov")) {
        m.moov = Some(moov.clone());
        parse_moov(d, moov, kind, &mut m, &mut pr);
    }
    m.probs = pr;
    m
}

fn parse_moov(d: &[u8], moov: &Bx, kind: &str, m: &mut Movie, pr: &mut Probs) {
    let kids = children(d, moov.pstart(), moov.end, "moov", pr);
    for b in &kids {
        if !(b.is(b"mvhd") || b.is(b"trak") || b.is(b"udta") || b.is(b"mvex")) {
            pr.add(Class::Mandatory, format!("moov/unexpected/{}", fcc(&b.typ)), "unexpected child of moov");
        }
    }
    if let Some(b) = one(&kids, b"mvhd", "moov", pr) {
        m.mvhd = Some(parse_mvhd(d, b, kind, pr));
    }
    let traks: Vec<&Bx> = kids.iter().filter(|b| b.is(b"trak")).collect();
    for (i, t) in traks.iter().enumerate() {
        let tr = parse_trak(d, t, kind, i, pr);
        m.tracks.push(tr);
    }
    if let Some(b) = opt(&kids, b"udta", "moov", pr) {
        m.udta = Some(parse_udta(d, b, pr));
    }
    if let Some(b) = opt(&kids, b"mvex", "moov", pr) {
        let mk = children(d, b.pstart(), b.end, "moov/mvex", pr);
        for t in mk.iter().filter(|x| x.is(b"trex")) {
            let c = Ck::new(d, t, &format!("{kind}/trex"));
            c.expect_size(32, pr);
            c.expect(c.u32(0) == 0, "vflags", format!("version/flags {:#x}", c.u32(0)), pr);
            m.trex.push(Trex {
                track_id: c.u32(4),
                default_desc_index: c.u32(8),
                default_duration: c.u32(12),
                default_size: c.u32(16),
                default_flags: c.u32(20),
            });
        }
        // MovieExtendsHeaderBox (ISO/IEC 14496-12 8.8.2): FullBox, fragment_duration of 32 bits in
        // version 0 and 64 bits in version 1; at most one, before the trex boxes
        for (i, t) in mk.iter().enumerate().filter(|(_, x)| x.is(b"mehd")) {
            let c = Ck::new(d, t, &format!("{kind}/mehd"));
            let v = c.version();
            c.expect(v <= 1, "version", format!("version {v}"), pr);
            c.expect(c.flags() == 0, "flags", format!("flags {:#x}", c.flags()), pr);
            c.expect_size(if v == 1 { 20 } else { 16 }, pr);
            c.expect(i == 0, "position", "mehd is not the first child of mvex".into(), pr);
        }
        if mk.iter().filter(|x| x.is(b"mehd")).count() > 1 {
            pr.add(Class::Mandatory, "moov/mvex/mehd/duplicated".to_string(), "more than one mehd");
        }
        for t in mk.iter().filter(|x| !x.is(b"trex") && !x.is(b"mehd")) {
            pr.add(Class::Mandatory, format!("moov/mvex/unexpected/{}", fcc(&t.typ)), "unexpected child of mvex");
        }
    }

    // cross-track rules on identifiers
    if let Some(mv) = &m.mvhd {
        let mut ids: Vec<u32> = m.tracks.iter().map(|t| t.tkhd.track_id).collect();
        for &id in &ids {
            if id == 0 {
                pr.add(Class::Spec, format!("{kind}/tkhd/track_id=0"), "track_ID must not be zero");
            }
            if id >= mv.next_track_id {
                pr.add(
                    Class::Spec,
                    format!("{kind}/mvhd/next_track_id={}<=track_id={}", mv.next_track_id, id),
                    "next_track_ID must be larger than every track_ID in use",
                );
            }
        }
        ids.sort();
        let n = ids.len();
        ids.dedup();
        if ids.len() != n {
            pr.add(Class::Spec, format!("{kind}/tkhd/duplicate-track-id"), "track IDs are not distinct");
        }
    }
}

fn parse_mvhd(d: &[u8], b: &Bx, kind: &str, pr: &mut Probs) -> Mvhd {
    let c = Ck::new(d, b, &format!("{kind}/mvhd"));
    let v = c.version();
    c.expect(v <= 1, "version", format!("version {v}"), pr);
    c.expect(c.flags() == 0, "flags", format!("flags {:#x}", c.flags()), pr);
    let (ts, dur, base) = if v == 1 {
        c.expect_size(120, pr);
        (c.u32(20), c.u64(24), 32)
    } else {
        c.expect_size(108, pr);
        (c.u32(12), c.u32(16) as u64, 20)
    };
    c.expect(c.u32(base) == 0x0001_0000, "rate", format!("rate {:#x}", c.u32(base)), pr);
    c.expect(c.u16(base + 4) == 0x0100, "volume", format!("volume {:#x}", c.u16(base + 4)), pr);
    c.zero(base + 6, 10, "reserved", pr);
    c.expect(matrix_at(&c, base + 16), "matrix", "matrix is not the identity".into(), pr);
    c.zero(base + 52, 24, "pre_defined", pr);
    let next = c.u32(base + 76);
    c.expect(next != 0, "next_track_id=0", "next_track_ID is zero".into(), pr);
    Mvhd { version: v, timescale: ts, duration: dur, next_track_id: next }
}

fn parse_tkhd(d: &[u8], b: &Bx, kind: &str, tag: &str, pr: &mut Probs) -> Tkhd {
    let c = Ck::new(d, b, &format!("{kind}/tkhd[{tag}]"));
    let v = c.version();
    c.expect(v <= 1, "version", format!("version {v}"), pr);
    let flags = c.flags();
    // track_enabled (0x1) must be set for the track to be presented
    c.expect(flags & 1 == 1, &format!("flags={flags:#08x}"), "track_enabled flag not set".into(), pr);
    let want = if v == 1 { 104 } else { 92 };
    let size_ok = c.expect_size(want, pr);
    let (id, dur, mut base) = if v == 1 { (c.u32(20), c.u64(28), 36) } else { (c.u32(12), c.u32(20) as u64, 24) };
    // `base` = offset of reserved[2] (8 bytes) that precedes layer
    let mut realigned = false;
    if !size_ok && v == 0 && b.size() == 96 && c.u32(base + 8) == 0 {
        // 4 surplus bytes after duration/reserved: keep checking the remaining fields at the
        // shifted positions so that other defects in this box stay visible under their own name.
        base += 4;
        realigned = true;
    }
    if v == 0 {
        c.zero(16, 4, "reserved0", pr);
    } else {
        c.zero(24, 4, "reserved0", pr);
    }
    c.zero(base, 8, "reserved1", pr);
    let layer = c.u16(base + 8);
    let alt = c.u16(base + 10);
    let volume = c.u16(base + 12);
    c.expect(layer == 0, "layer", format!("layer {layer}"), pr);
    c.expect(alt == 0, "alternate_group", format!("alternate_group {alt}"), pr);
    c.zero(base + 14, 2, "reserved2", pr);
    let mi = matrix_at(&c, base + 16);
    c.expect(mi, "matrix", "matrix is not the identity".into(), pr);
    let w = c.u32(base + 52);
    let h = c.u32(base + 56);
    let _ = realigned;
    Tkhd { size: b.size(), version: v, flags, track_id: id, duration: dur, volume, matrix_identity: mi, width_fixed: w, height_fixed: h }
}

fn parse_mdhd(d: &[u8], b: &Bx, kind: &str, tag: &str, pr: &mut Probs) -> (Mdhd, usize) {
    let c = Ck::new(d, b, &format!("{kind}/mdhd[{tag}]"));
    let v = c.version();
    c.expect(v <= 1, "version", format!("version {v}"), pr);
    c.expect(c.flags() == 0, "flags", format!("flags {:#x}", c.flags()), pr);
    let (ts, dur, lo) = if v == 1 {
        c.expect_size(44, pr);
        (c.u32(20), c.u64(24), 32)
    } else {
        c.expect_size(32, pr);
        (c.u32(12), c.u32(16) as u64, 20)
    };
    let lang = c.u16(lo);
    c.expect(lang & 0x8000 == 0, "pad", "pad bit set".into(), pr);
    c.expect(c.u16(lo + 2) == 0, "pre_defined", format!("pre_defined {:#x}", c.u16(lo + 2)), pr);
    (
        Mdhd { version: v, timescale: ts, duration: dur, language: unpack_lang(lang), lang_raw: lang },
        b.pstart() + lo,
    )
}

fn parse_hdlr(d: &[u8], b: &Bx, path: &str, pr: &mut Probs) -> Fourcc {
    let c = Ck::new(d, b, path);
    c.expect(c.u32(0) == 0, "vflags", format!("version/flags {:#x}", c.u32(0)), pr);
    c.expect(c.u32(4) == 0, "pre_defined", format!("pre_defined {:#x}", c.u32(4)), pr);
    let pl = c.plen();
    if pl < 25 {
        pr.add(Class::Spec, format!("{path}/size={}", b.size()), "hdlr shorter than its fixed part plus a terminated name");
        return *b"\0\0\0\0";
    }
    let name = c.bytes(24, pl - 24);
    let nul = name.iter().position(|&x| x == 0);
    c.expect(nul == Some(name.len() - 1), "name", format!("name not a single NUL-terminated string: {name:02x?}"), pr);
    c.expect(std::str::from_utf8(&name[..name.len() - 1]).is_ok(), "name-utf8", "name is not UTF-8".into(), pr);
    c.bytes(8, 4).try_into().unwrap()
}

fn parse_trak(d: &[u8], trak: &Bx, kind: &str, index: usize, pr: &mut Probs) -> Track {
    let path = format!("trak[{index}]");
    let kids = children(d, trak.pstart(), trak.end, &path, pr);
    let mut t = Track {
        tkhd: Tkhd::default(),
        mdhd: Mdhd::default(),
        handler: *b"\0\0\0\0",
        media_header: *b"\0\0\0\0",
        entry: None,
        stts: vec![],
        ctts: None,
        stsc: vec![],
        stsz_uniform: 0,
        stsz: vec![],
        stsz_count: 0,
        stco: vec![],
        stco_pos: vec![],
        co64: false,
        stss: None,
        elst: None,
        trak: trak.clone(),
        mdhd_lang_pos: 0,
    };
    // handler type is needed for the tag: look ahead
    let mdia = one(&kids, b"mdia", &path, pr).cloned();
    let mut tag = "?".to_string();
    let mut mdia_kids = vec![];
    if let Some(mdia) = &mdia {
        mdia_kids = children(d, mdia.pstart(), mdia.end, &format!("{path}/mdia"), pr);
        if let Some(h) = mdia_kids.iter().find(|b| b.is(b"hdlr")) {
            if h.size() >= 8 + 12 {
                let ht: Fourcc = d[h.pstart() + 8..h.pstart() + 12].try_into().unwrap();
                tag = match &ht {
                    b"vide" => "v".into(),
                    b"soun" => "a".into(),
                    _ => fcc(&ht),
                };
            }
        }
    }
    for b in &kids {
        if !(b.is(b"tkhd") || b.is(b"mdia") || b.is(b"edts")) {
            pr.add(Class::Mandatory, format!("{path}/unexpected/{}", fcc(&b.typ)), "unexpected child of trak");
        }
    }
    if let Some(b) = one(&kids, b"tkhd", &path, pr) {
        t.tkhd = parse_tkhd(d, b, kind, &tag, pr);
    }
    if let Some(e) = opt(&kids, b"edts", &path, pr) {
        let ek = children(d, e.pstart(), e.end, &format!("{path}/edts"), pr);
        if let Some(el) = opt(&ek, b"elst", &format!("{path}/edts"), pr) {
            let c = Ck::new(d, el, &format!("{kind}/elst[{tag}]"));
            let v = c.version();
            let n = c.u32(4) as usize;
            let es = if v == 1 { 20 } else { 12 };
            if c.plen() != 8 + n * es {
                pr.add(Class::Count, format!("{path}/elst/count"), format!("{n} entries do not fill {} bytes", c.plen()));
            } else {
                let mut entries = vec![];
                for i in 0..n {
                    let o = 8 + i * es;
                    if v == 1 {
                        entries.push((c.u64(o), c.u64(o + 8) as i64, c.u16(o + 16) as i16, c.u16(o + 18) as i16));
                    } else {
                        entries.push((c.u32(o) as u64, c.u32(o + 4) as i32 as i64, c.u16(o + 8) as i16, c.u16(o + 10) as i16));
                    }
                }
                t.elst = Some(Elst { version: v, entries });
            }
        }
    }
    let Some(_mdia) = mdia else { return t };
    let mpath = format!("{path}/mdia");
    if let Some(b) = one(&mdia_kids, b"mdhd", &mpath, pr) {
        let (md, lp) = parse_mdhd(d, b, kind, &tag, pr);
        t.mdhd = md;
        t.mdhd_lang_pos = lp;
    }
    if let Some(b) = one(&mdia_kids, b"hdlr", &mpath, pr) {
        t.handler = parse_hdlr(d, b, &format!("{kind}/hdlr[{tag}]"), pr);
    }
    let Some(minf) = one(&mdia_kids, b"minf", &mpath, pr) else { return t };
    let ipath = format!("{mpath}/minf");
    let mk = children(d, minf.pstart(), minf.end, &ipath, pr);
    let is_video = &t.handler == b"vide";
    let is_audio = &t.handler == b"soun";
    if is_video {
        if let Some(b) = one(&mk, b"vmhd", &ipath, pr) {
            t.media_header = *b"vmhd";
            let c = Ck::new(d, b, &format!("{kind}/vmhd"));
            c.expect_size(20, pr);
            c.expect(c.version() == 0, "version", format!("version {}", c.version()), pr);
            c.expect(c.flags() == 1, &format!("flags={:#08x}", c.flags()), "vmhd flags must be 1".into(), pr);
            c.zero(4, 8, "graphicsmode-opcolor", pr);
        }
    } else if is_audio {
        if let Some(b) = one(&mk, b"smhd", &ipath, pr) {
            t.media_header = *b"smhd";
            let c = Ck::new(d, b, &format!("{kind}/smhd"));
            c.expect_size(16, pr);
            c.expect(c.u32(0) == 0, "vflags", format!("version/flags {:#x}", c.u32(0)), pr);
            c.zero(4, 4, "balance-reserved", pr);
        }
    } else {
        pr.add(Class::Spec, format!("{kind}/hdlr[{tag}]/handler_type"), format!("handler type {} is neither vide nor soun", fcc(&t.handler)));
    }
    if let Some(dinf) = one(&mk, b"dinf", &ipath, pr) {
        let dk = children(d, dinf.pstart(), dinf.end, &format!("{ipath}/dinf"), pr);
        if let Some(dref) = one(&dk, b"dref", &format!("{ipath}/dinf"), pr) {
            let c = Ck::new(d, dref, &format!("{kind}/dref[{tag}]"));
            c.expect(c.u32(0) == 0, "vflags", format!("version/flags {:#x}", c.u32(0)), pr);
            let n = c.u32(4);
            if c.plen() < 8 {
                pr.add(Class::Tile, format!("{ipath}/dinf/dref/short"), "dref shorter than its header");
            } else {
                let ek = children(d, dref.pstart() + 8, dref.end, &format!("{ipath}/dinf/dref"), pr);
                if ek.len() as u32 != n {
                    pr.add(Class::Count, format!("{ipath}/dinf/dref/count"), format!("entry_count {n} but {} entries", ek.len()));
                }
                match ek.first() {
                    Some(u) if u.is(b"url ") => {
                        let uc = Ck::new(d, u, &format!("{kind}/url[{tag}]"));
                        uc.expect_size(12, pr);
                        uc.expect(uc.u32(0) == 1, "vflags", format!("url version/flags {:#x} (self-contained = 1)", uc.u32(0)), pr);
                    }
                    _ => pr.add(Class::Mandatory, format!("{ipath}/dinf/dref/missing/url "), "no url entry"),
                }
            }
        }
    }
    let Some(stbl) = one(&mk, b"stbl", &ipath, pr) else { return t };
    let spath = format!("{ipath}/stbl");
    let sk = children(d, stbl.pstart(), stbl.end, &spath, pr);
    for b in &sk {
        if ![b"stsd", b"stts", b"ctts", b"stsc", b"stsz", b"stco", b"co64", b"stss"].iter().any(|t| b.is(t)) {
            pr.add(Class::Mandatory, format!("{spath}/unexpected/{}", fcc(&b.typ)), "unexpected child of stbl");
        }
    }
    if let Some(b) = one(&sk, b"stsd", &spath, pr) {
        let c = Ck::new(d, b, &format!("{kind}/stsd[{tag}]"));
        c.expect(c.u32(0) == 0, "vflags", format!("version/flags {:#x}", c.u32(0)), pr);
        if c.plen() < 8 {
            pr.add(Class::Tile, format!("{spath}/stsd/short"), "stsd shorter than its header");
        } else {
            let n = c.u32(4);
            let ek = children(d, b.pstart() + 8, b.end, &format!("{spath}/stsd"), pr);
            if ek.len() as u32 != n {
                pr.add(Class::Count, format!("{spath}/stsd/count"), format!("entry_count {n} but {} entries", ek.len()));
            }
            if let Some(e) = ek.first() {
                t.entry = parse_sample_entry(d, e, kind, is_video, is_audio, &format!("{spath}/stsd"), pr);
            } else {
                pr.add(Class::Mandatory, format!("{spath}/stsd/empty"), "no sample entry");
            }
        }
    }
    // table boxes: full box header (4) + count (4) + entries
    let table = |b: &Bx, name: &str, entry: usize, pr: &mut Probs| -> Option<(u8, usize)> {
        let pl = b.end - b.pstart();
        if pl < 8 {
            pr.add(Class::Tile, format!("{spath}/{name}/short"), "table box shorter than its header");
            return None;
        }
        let v = d[b.pstart()];
        let fl = be32(d, b.pstart()) & 0xff_ffff;
        if fl != 0 {
            pr.add(Class::Spec, format!("{kind}/{name}[{tag}]/flags"), format!("flags {fl:#x}"));
        }
        let n = be32(d, b.pstart() + 4) as usize;
        if pl != 8 + n * entry {
            pr.add(Class::Count, format!("{spath}/{name}/count"), format!("entry_count {n} x {entry} bytes does not fill payload of {pl}"));
            return None;
        }
        Some((v, n))
    };
    if let Some(b) = one(&sk, b"stts", &spath, pr) {
        if let Some((v, n)) = table(b, "stts", 8, pr) {
            if v != 0 {
                pr.add(Class::Spec, format!("{kind}/stts[{tag}]/version"), format!("version {v}"));
            }
            for i in 0..n {
                let o = b.pstart() + 8 + 8 * i;
                t.stts.push((be32(d, o), be32(d, o + 4)));
            }
        }
    }
    if let Some(b) = opt(&sk, b"ctts", &spath, pr) {
        if let Some((v, n)) = table(b, "ctts", 8, pr) {
            if v > 1 {
                pr.add(Class::Spec, format!("{kind}/ctts[{tag}]/version"), format!("version {v}"));
            }
            let mut e = vec![];
            for i in 0..n {
                let o = b.pstart() + 8 + 8 * i;
                let raw = be32(d, o + 4);
                let off = if v == 0 { raw as i64 } else { raw as i32 as i64 };
                e.push((be32(d, o), off));
            }
            t.ctts = Some((v, e));
        }
    }
    if let Some(b) = one(&sk, b"stsc", &spath, pr) {
        if let Some((v, n)) = table(b, "stsc", 12, pr) {
            if v != 0 {
                pr.add(Class::Spec, format!("{kind}/stsc[{tag}]/version"), format!("version {v}"));
            }
            for i in 0..n {
                let o = b.pstart() + 8 + 12 * i;
                t.stsc.push((be32(d, o), be32(d, o + 4), be32(d, o + 8)));
            }
        }
    }
    if let Some(b) = one(&sk, b"stsz", &spath, pr) {
        let pl = b.end - b.pstart();
        if pl < 12 {
            pr.add(Class::Tile, format!("{spath}/stsz/short"), "stsz shorter than its header");
        } else {
            if be32(d, b.pstart()) != 0 {
                pr.add(Class::Spec, format!("{kind}/stsz[{tag}]/vflags"), format!("version/flags {:#x}", be32(d, b.pstart())));
            }
            let uni = be32(d, b.pstart() + 4);
            let n = be32(d, b.pstart() + 8) as usize;
            t.stsz_uniform = uni;
            t.stsz_count = n as u32;
            let want = if uni == 0 { 12 + 4 * n } else { 12 };
            if pl != want {
                pr.add(Class::Count, format!("{spath}/stsz/count"), format!("sample_count {n} (uniform {uni}) does not fill payload of {pl}"));
            } else if uni == 0 {
                for i in 0..n {
                    t.stsz.push(be32(d, b.pstart() + 12 + 4 * i));
                }
            } else {
                t.stsz = vec![uni; n];
            }
        }
    }
    if let Some(b) = sk.iter().find(|b| b.is(b"co64")).filter(|_| !sk.iter().any(|b| b.is(b"stco"))) {
        // 64-bit chunk offsets (ISO 14496-12 8.7.5): exactly one of stco / co64
        if let Some((v, n)) = table(b, "co64", 8, pr) {
            if v != 0 {
                pr.add(Class::Spec, format!("{kind}/co64[{tag}]/version"), format!("version {v}"));
            }
            for i in 0..n {
                let o = b.pstart() + 8 + 8 * i;
                t.stco.push(be64(d, o));
                t.stco_pos.push(o);
                t.co64 = true;
            }
        }
    } else if let Some(b) = one(&sk, b"stco", &spath, pr) {
        if let Some((v, n)) = table(b, "stco", 4, pr) {
            if v != 0 {
                pr.add(Class::Spec, format!("{kind}/stco[{tag}]/version"), format!("version {v}"));
            }
            for i in 0..n {
                let o = b.pstart() + 8 + 4 * i;
                t.stco.push(be32(d, o) as u64);
                t.stco_pos.push(o);
            }
        }
    }
    if let Some(b) = opt(&sk, b"stss", &spath, pr) {
        if let Some((v, n)) = table(b, "stss", 4, pr) {
            if v != 0 {
                pr.add(Class::Spec, format!("{kind}/stss[{tag}]/version"), format!("version {v}"));
            }
            let mut e = vec![];
            for i in 0..n {
                e.push(be32(d, b.pstart() + 8 + 4 * i));
            }
            t.stss = Some(e);
        }
    }

    // mutual consistency of entry counts
    let n = t.stsz.len() as u64;
    let stts_n: u64 = t.stts.iter().map(|e| e.0 as u64).sum();
    if stts_n != n {
        pr.add(Class::Count, format!("{path}/count/stts!=stsz"), format!("stts covers {stts_n} samples, stsz {n}"));
    }
    if let Some((_, c)) = &t.ctts {
        let cn: u64 = c.iter().map(|e| e.0 as u64).sum();
        if cn != n {
            pr.add(Class::Count, format!("{path}/count/ctts!=stsz"), format!("ctts covers {cn} samples, stsz {n}"));
        }
    }
    match chunk_sample_counts(&t.stsc, t.stco.len()) {
        Ok(v) => {
            let s: u64 = v.iter().map(|&x| x as u64).sum();
            if s != n {
                pr.add(Class::Count, format!("{path}/count/stsc*stco!=stsz"), format!("chunks hold {s} samples, stsz {n}"));
            }
        }
        Err(e) => pr.add(Class::Count, format!("{path}/count/stsc"), e),
    }
    if let Some(ss) = &t.stss {
        let mut prev = 0u32;
        for &s in ss {
            if s <= prev || (s as u64) > n {
                pr.add(Class::Count, format!("{path}/count/stss"), format!("sync sample number {s} after {prev} with {n} samples"));
                break;
            }
            prev = s;
        }
    }
    t
}

/// samples per chunk for every chunk, from stsc runs
pub fn chunk_sample_counts(stsc: &[(u32, u32, u32)], chunks: usize) -> Result<Vec<u32>, String> {
    let mut out = vec![0u32; chunks];
    if stsc.is_empty() {
        if chunks != 0 {
            return Err(format!("{chunks} chunks but stsc is empty"));
        }
        return Ok(out);
    }
    if stsc[0].0 != 1 {
        return Err(format!("first stsc entry starts at chunk {}", stsc[0].0));
    }
    for (i, e) in stsc.iter().enumerate() {
        let first = e.0 as usize;
        let next = if i + 1 < stsc.len() { stsc[i + 1].0 as usize } else { chunks + 1 };
        if next <= first && i + 1 < stsc.len() {
            return Err("stsc first_chunk not increasing".into());
        }
        if e.2 != 1 {
            return Err(format!("sample_description_index {}", e.2));
        }
        if first > chunks + 1 {
            return Err(format!("stsc first_chunk {first} beyond {chunks} chunks"));
        }
        for c in first..next.min(chunks + 1) {
            out[c - 1] = e.1;
        }
    }
    Ok(out)
}

fn parse_sample_entry(d: &[u8], e: &Bx, kind: &str, is_video: bool, is_audio: bool, path: &str, pr: &mut Probs) -> Option<SampleEntry> {
    let name = fcc(&e.typ);
    let c = Ck::new(d, e, &format!("{kind}/{name}"));
    let mut se = SampleEntry {
        format: e.typ,
        data_ref_index: 0,
        width: 0,
        height: 0,
        channels: 0,
        sample_size: 0,
        rate_fixed: 0,
        cfg: CodecCfg::None,
        cfg_box: *b"\0\0\0\0",
        raw: d[e.start..e.end].to_vec(),
    };
    let fixed = if is_video { 78 } else if is_audio { 28 } else { 8 };
    if c.plen() < fixed {
        pr.add(Class::Tile, format!("{path}/{name}/short"), format!("sample entry payload {} shorter than fixed part {fixed}", c.plen()));
        return Some(se);
    }
    c.zero(0, 6, "reserved", pr);
    se.data_ref_index = c.u16(6);
    c.expect(se.data_ref_index == 1, "data_reference_index", format!("data_reference_index {}", se.data_ref_index), pr);
    if is_video {
        c.zero(8, 16, "pre_defined", pr);
        se.width = c.u16(24);
        se.height = c.u16(26);
        c.expect(c.u32(28) == 0x0048_0000, "horizresolution", format!("{:#x}", c.u32(28)), pr);
        c.expect(c.u32(32) == 0x0048_0000, "vertresolution", format!("{:#x}", c.u32(32)), pr);
        c.zero(36, 4, "reserved2", pr);
        c.expect(c.u16(40) == 1, "frame_count", format!("frame_count {}", c.u16(40)), pr);
        c.expect(c.u8(42) <= 31, "compressorname", format!("compressorname length byte {}", c.u8(42)), pr);
        c.expect(c.u16(74) == 0x0018, "depth", format!("depth {:#x}", c.u16(74)), pr);
        c.expect(c.u16(76) == 0xffff, "pre_defined2", format!("pre_defined {:#x}", c.u16(76)), pr);
    } else if is_audio {
        c.zero(8, 8, "reserved1", pr);
        se.channels = c.u16(16);
        se.sample_size = c.u16(18);
        c.expect(se.sample_size == 16, "samplesize", format!("samplesize {}", se.sample_size), pr);
        c.zero(20, 4, "pre_defined-reserved", pr);
        se.rate_fixed = c.u32(24);
    }
    let kids = children(d, e.pstart() + fixed, e.end, &format!("{path}/{name}"), pr);
    let want: Option<&[u8; 4]> = match &e.typ {
        b"avc1" => Some(b"avcC"),
        b"hvc1" | b"hev1" => Some(b"hvcC"),
        b"av01" => Some(b"av1C"),
        b"vp09" => Some(b"vpcC"),
        b"mp4a" => Some(b"esds"),
        b"Opus" => Some(b"dOps"),
        _ => None,
    };
    if let Some(w) = want {
        if let Some(cb) = one(&kids, w, &format!("{path}/{name}"), pr) {
            se.cfg_box = cb.typ;
            se.cfg = parse_codec_cfg(d, cb, kind, pr);
        }
    }
    Some(se)
}

fn read_desc_len(d: &[u8], pos: &mut usize, end: usize) -> Option<usize> {
    let mut v = 0usize;
    for _ in 0..4 {
        if *pos >= end {
            return None;
        }
        let b = d[*pos];
        *pos += 1;
        v = (v << 7) | (b & 0x7f) as usize;
        if b & 0x80 == 0 {
            return Some(v);
        }
    }
    None
}

fn parse_codec_cfg(d: &[u8], b: &Bx, kind: &str, pr: &mut Probs) -> CodecCfg {
    let name = fcc(&b.typ);
    let c = Ck::new(d, b, &format!("{kind}/{name}"));
    let p = &d[b.pstart()..b.end];
    let bad = |pr: &mut Probs, what: &str, detail: String| {
        pr.add(Class::Spec, format!("{kind}/{name}/{what}"), detail);
    };
    match &b.typ {
        b"avcC" => {
            if p.len() < 7 {
                bad(pr, "short", format!("payload {} bytes", p.len()));
                return CodecCfg::None;
            }
            c.expect(p[0] == 1, "configurationVersion", format!("{}", p[0]), pr);
            c.expect(p[4] & 0xfc == 0xfc, "reserved-lengthSize", format!("{:#x}", p[4]), pr);
            c.expect(p[5] & 0xe0 == 0xe0, "reserved-numSPS", format!("{:#x}", p[5]), pr);
            let mut pos = 6;
            let mut sps = vec![];
            let mut ok = true;
            for _ in 0..(p[5] & 0x1f) {
                if pos + 2 > p.len() {
                    ok = false;
                    break;
                }
                let l = be16(p, pos) as usize;
                pos += 2;
                if pos + l > p.len() {
                    ok = false;
                    break;
                }
                sps.push(p[pos..pos + l].to_vec());
                pos += l;
            }
            let mut pps = vec![];
            if ok && pos < p.len() {
                let n = p[pos];
                pos += 1;
                for _ in 0..n {
                    if pos + 2 > p.len() {
                        ok = false;
                        break;
                    }
                    let l = be16(p, pos) as usize;
                    pos += 2;
                    if pos + l > p.len() {
                        ok = false;
                        break;
                    }
                    pps.push(p[pos..pos + l].to_vec());
                    pos += l;
                }
            } else {
                ok = false;
            }
            if !ok {
                bad(pr, "overrun", "parameter-set lengths overrun the record".into());
            } else if pos != p.len() {
                // the High-profile extension is optional; anything else is slack
                let hi = matches!(p[1], 100 | 110 | 122 | 144);
                if !(hi && p.len() - pos >= 4) {
                    bad(pr, "slack", format!("{} trailing bytes", p.len() - pos));
                }
            }
            CodecCfg::Avc { profile: p[1], compat: p[2], level: p[3], length_size: (p[4] & 3) + 1, sps, pps }
        }
        b"hvcC" => {
            if p.len() < 23 {
                bad(pr, "short", format!("payload {} bytes", p.len()));
                return CodecCfg::None;
            }
            c.expect(p[0] == 1, "configurationVersion", format!("{}", p[0]), pr);
            c.expect(p[13] & 0xf0 == 0xf0, "reserved-min_spatial_segmentation", format!("{:#x}", p[13]), pr);
            c.expect(p[15] & 0xfc == 0xfc, "reserved-parallelismType", format!("{:#x}", p[15]), pr);
            c.expect(p[16] & 0xfc == 0xfc, "reserved-chromaFormat", format!("{:#x}", p[16]), pr);
            c.expect(p[17] & 0xf8 == 0xf8, "reserved-bitDepthLuma", format!("{:#x}", p[17]), pr);
            c.expect(p[18] & 0xf8 == 0xf8, "reserved-bitDepthChroma", format!("{:#x}", p[18]), pr);
            let n = p[22];
            let mut pos = 23;
            let mut arrays = vec![];
            let mut ok = true;
            'a: for _ in 0..n {
                if pos + 3 > p.len() {
                    ok = false;
                    break;
                }
                let h = p[pos];
                if h & 0x40 != 0 {
                    bad(pr, "array-reserved", format!("array header {h:#x}"));
                }
                let cnt = be16(p, pos + 1);
                pos += 3;
                let mut units = vec![];
                for _ in 0..cnt {
                    if pos + 2 > p.len() {
                        ok = false;
                        break 'a;
                    }
                    let l = be16(p, pos) as usize;
                    pos += 2;
                    if pos + l > p.len() {
                        ok = false;
                        break 'a;
                    }
                    units.push(p[pos..pos + l].to_vec());
                    pos += l;
                }
                arrays.push((h & 0x3f, units));
            }
            if !ok {
                bad(pr, "overrun", "array lengths overrun the record".into());
            } else if pos != p.len() {
                bad(pr, "slack", format!("{} trailing bytes", p.len() - pos));
            }
            CodecCfg::Hevc { raw: p[..23].to_vec(), length_size: (p[21] & 3) + 1, arrays }
        }
        b"av1C" => {
            if p.len() < 4 {
                bad(pr, "short", format!("payload {} bytes", p.len()));
                return CodecCfg::None;
            }
            c.expect(p[0] == 0x81, "marker-version", format!("first byte {:#x} (marker=1, version=1 => 0x81)", p[0]), pr);
            c.expect(p[3] & 0xe0 == 0, "reserved", format!("{:#x}", p[3]), pr);
            if p[3] & 0x10 == 0 {
                c.expect(p[3] & 0x0f == 0, "reserved-delay", format!("{:#x}", p[3]), pr);
            }
            CodecCfg::Av1 {
                marker_version: p[0],
                seq_profile: p[1] >> 5,
                seq_level_idx: p[1] & 0x1f,
                seq_tier: p[2] >> 7,
                high_bitdepth: p[2] & 0x40 != 0,
                twelve_bit: p[2] & 0x20 != 0,
                monochrome: p[2] & 0x10 != 0,
                subx: p[2] & 0x08 != 0,
                suby: p[2] & 0x04 != 0,
                csp: p[2] & 3,
                config_obus: p[4..].to_vec(),
            }
        }
        b"vpcC" => {
            // FullBox(version 1, flags 0): profile, level, bitDepth(4)|chroma(3)|range(1), cp, tc, mc, codecInitSize(16)
            let fullbox = p.len() >= 12 && p[0] == 1 && p[1] == 0 && p[2] == 0 && p[3] == 0;
            if !c.expect_size(20, pr) || !fullbox {
                if b.size() == 20 && !fullbox {
                    bad(pr, "vflags", format!("version/flags {:02x?}", &p[..4.min(p.len())]));
                }
                return CodecCfg::Vp9 { fullbox: false, profile: 0, level: 0, bit_depth: 0, chroma: 0, full_range: 0, cp: 0, tc: 0, mc: 0, raw: p.to_vec() };
            }
            c.expect(be16(p, 10) == 0, "codecInitializationDataSize", format!("{}", be16(p, 10)), pr);
            CodecCfg::Vp9 {
                fullbox: true,
                profile: p[4],
                level: p[5],
                bit_depth: p[6] >> 4,
                chroma: (p[6] >> 1) & 7,
                full_range: p[6] & 1,
                cp: p[7],
                tc: p[8],
                mc: p[9],
                raw: p.to_vec(),
            }
        }
        b"esds" => {
            c.expect(c.u32(0) == 0, "vflags", format!("version/flags {:#x}", c.u32(0)), pr);
            let end = p.len();
            let mut pos = 4;
            let mut out = CodecCfg::Esds { object_type: 0, stream_type_byte: 0, asc: vec![] };
            // ES_Descriptor
            if pos >= end || p[pos] != 0x03 {
                bad(pr, "ES_Descriptor-tag", "missing tag 0x03".into());
                return out;
            }
            pos += 1;
            let Some(l) = read_desc_len(p, &mut pos, end) else {
                bad(pr, "ES_Descriptor-len", "bad length".into());
                return out;
            };
            if pos + l != end {
                bad(pr, "ES_Descriptor-len", format!("length {l} does not reach the end of the box ({} left)", end - pos));
                return out;
            }
            if pos + 3 > end {
                bad(pr, "ES_Descriptor-short", "truncated".into());
                return out;
            }
            let esflags = p[pos + 2];
            c.expect(esflags & 0xe0 == 0, "ES-flags", format!("{esflags:#x} (dependence/URL/OCR not supported here)"), pr);
            pos += 3;
            // DecoderConfigDescriptor
            if pos >= end || p[pos] != 0x04 {
                bad(pr, "DecoderConfig-tag", "missing tag 0x04".into());
                return out;
            }
            pos += 1;
            let Some(dl) = read_desc_len(p, &mut pos, end) else {
                bad(pr, "DecoderConfig-len", "bad length".into());
                return out;
            };
            let dend = pos + dl;
            if dend > end || dl < 13 {
                bad(pr, "DecoderConfig-len", format!("length {dl} with {} left", end - pos));
                return out;
            }
            let oti = p[pos];
            let st = p[pos + 1];
            c.expect(oti == 0x40, "objectTypeIndication", format!("{oti:#x}"), pr);
            c.expect(st == 0x15, &format!("streamType={st:#04x}"), "streamType byte must be 0x15 (audio stream, upStream 0, reserved 1)".into(), pr);
            pos += 13;
            let mut asc = vec![];
            if pos < dend {
                if p[pos] != 0x05 {
                    bad(pr, "DecoderSpecificInfo-tag", format!("tag {:#x}", p[pos]));
                    return out;
                }
                pos += 1;
                let Some(sl) = read_desc_len(p, &mut pos, dend) else {
                    bad(pr, "DecoderSpecificInfo-len", "bad length".into());
                    return out;
                };
                if pos + sl != dend {
                    bad(pr, "DecoderSpecificInfo-len", format!("length {sl} does not fill DecoderConfigDescriptor"));
                    return out;
                }
                asc = p[pos..pos + sl].to_vec();
                // AudioSpecificConfig (ISO/IEC 14496-3, 1.6.2.1): the record must be long enough
                // for the syntax its own audioObjectType selects. Plain types need 5+4+4 bits
                // plus the 3 bits of GASpecificConfig (2 bytes); the hierarchical SBR / PS types
                // (5, 29) carry an extension frequency index and a second object type first.
                let bits = asc.len() * 8;
                if bits < 13 {
                    bad(pr, "AudioSpecificConfig-short", format!("{} bytes", asc.len()));
                } else {
                    let aot = asc[0] >> 3;
                    let sfi = ((asc[0] & 7) << 1) | (asc[1] >> 7);
                    let need = match (aot, sfi) {
                        (31, _) => 13 + 6 + 3,
                        (_, 15) => 13 + 24 + 3,
                        (5, _) | (29, _) => 13 + 4 + 5 + 3,
                        _ => 13 + 3,
                    };
                    if bits < need {
                        bad(pr, "AudioSpecificConfig-truncated", format!("audioObjectType {aot} needs at least {need} bits, the record has {bits}"));
                    }
                }
                pos = dend;
            }
            // SLConfigDescriptor
            if pos >= end || p[pos] != 0x06 {
                bad(pr, "SLConfig-tag", "missing tag 0x06".into());
            } else {
                pos += 1;
                match read_desc_len(p, &mut pos, end) {
                    Some(sl) if pos + sl == end => {
                        c.expect(sl == 1 && p[pos] == 2, "SLConfig-predefined", format!("{:02x?}", &p[pos..end]), pr);
                    }
                    _ => bad(pr, "SLConfig-len", "length does not reach the end".into()),
                }
            }
            if let CodecCfg::Esds { object_type, stream_type_byte, asc: a } = &mut out {
                *object_type = oti;
                *stream_type_byte = st;
                *a = asc;
            }
            out
        }
        b"dOps" => {
            if p.len() < 11 {
                bad(pr, "short", format!("payload {} bytes", p.len()));
                return CodecCfg::None;
            }
            c.expect(p[0] == 0, "Version", format!("{}", p[0]), pr);
            let ch = p[1];
            let fam = p[10];
            let want = if fam == 0 { 11 } else { 13 + ch as usize };
            if p.len() != want {
                bad(pr, &format!("size={}", b.size()), format!("payload {} bytes but family {fam} with {ch} channels needs {want}", p.len()));
            }
            CodecCfg::Dops { version: p[0], channels: ch, pre_skip: be16(p, 2), rate: be32(p, 4), gain: be16(p, 8) as i16, family: fam, raw: p.to_vec() }
        }
        _ => CodecCfg::None,
    }
}

fn parse_udta(d: &[u8], udta: &Bx, pr: &mut Probs) -> Udta {
    let mut u = Udta { meta_handler: None, items: vec![], range: (udta.start, udta.end) };
    let kids = children(d, udta.pstart(), udta.end, "moov/udta", pr);
    let Some(meta) = one(&kids, b"meta", "moov/udta", pr) else { return u };
    if meta.end - meta.pstart() < 4 {
        pr.add(Class::Tile, "moov/udta/meta/short", "meta shorter than its full-box header");
        return u;
    }
    if be32(d, meta.pstart()) != 0 {
        pr.add(Class::Spec, "prog/meta/vflags", format!("version/flags {:#x}", be32(d, meta.pstart())));
    }
    let mk = children(d, meta.pstart() + 4, meta.end, "moov/udta/meta", pr);
    if let Some(h) = one(&mk, b"hdlr", "moov/udta/meta", pr) {
        u.meta_handler = Some(parse_hdlr(d, h, "prog/hdlr[meta]", pr));
    }
    if let Some(il) = one(&mk, b"ilst", "moov/udta/meta", pr) {
        let items = children(d, il.pstart(), il.end, "moov/udta/meta/ilst", pr);
        for it in &items {
            let ik = children(d, it.pstart(), it.end, &format!("moov/udta/meta/ilst/{}", fcc(&it.typ)), pr);
            if let Some(db) = one(&ik, b"data", &format!("moov/udta/meta/ilst/{}", fcc(&it.typ)), pr) {
                if db.end - db.pstart() < 8 {
                    pr.add(Class::Tile, "moov/udta/meta/ilst/data/short", "data box shorter than type+locale");
                    continue;
                }
                u.items.push(IlstItem {
                    key: it.typ,
                    data_type: be32(d, db.pstart()),
                    locale: be32(d, db.pstart() + 4),
                    value: d[db.pstart() + 8..db.end].to_vec(),
                });
            }
        }
    }
    u
}

impl Track {
    /// Expand the sample tables to one record per sample (offset, size, dts, duration, cts, sync).
    pub fn samples(&self) -> Result<Vec<SampleLoc>, String> {
        let n = self.stsz.len();
        let per_chunk = chunk_sample_counts(&self.stsc, self.stco.len())?;
        let mut offs = Vec::with_capacity(n);
        let mut idx = 0usize;
        for (ci, &cnt) in per_chunk.iter().enumerate() {
            let mut o = self.stco[ci];
            for _ in 0..cnt {
                if idx >= n {
                    return Err("chunks hold more samples than stsz".into());
                }
                offs.push(o);
                o += self.stsz[idx] as u64;
                idx += 1;
            }
        }
        if idx != n {
            return Err(format!("chunks hold {idx} samples, stsz {n}"));
        }
        let mut durs = Vec::with_capacity(n);
        for &(c, dlt) in &self.stts {
            for _ in 0..c {
                durs.push(dlt);
            }
        }
        if durs.len() != n {
            return Err(format!("stts covers {} samples, stsz {n}", durs.len()));
        }
        let mut cts = vec![0i64; n];
        if let Some((_, e)) = &self.ctts {
            let mut v = Vec::with_capacity(n);
            for &(c, o) in e {
                for _ in 0..c {
                    v.push(o);
                }
            }
            if v.len() != n {
                return Err(format!("ctts covers {} samples, stsz {n}", v.len()));
            }
            cts = v;
        }
        let mut out = Vec::with_capacity(n);
        let mut t = 0u64;
        for i in 0..n {
            let sync = match &self.stss {
                None => true,
                Some(s) => s.contains(&(i as u32 + 1)),
            };
            out.push(SampleLoc { offset: offs[i], size: self.stsz[i], dts: t, dur: durs[i], cts: cts[i], sync });
            t += durs[i] as u64;
        }
        Ok(out)
    }
}

impl Movie {
    pub fn video(&self) -> Option<&Track> {
        self.tracks.iter().find(|t| &t.handler == b"vide")
    }
    pub fn audio(&self) -> Option<&Track> {
        self.tracks.iter().find(|t| &t.handler == b"soun")
    }
}

/// moov bytes with every chunk offset zeroed (and optionally udta removed / language zeroed):
/// the "reader-reduced movie" used by the differential oracles of C08 and C18.
pub fn reduced_moov(d: &[u8], m: &Movie, strip_meta: bool) -> Vec<u8> {
    let Some(moov) = &m.moov else { return vec![] };
    let mut v = d[moov.start..moov.end].to_vec();
    for t in &m.tracks {
        for &p in &t.stco_pos {
            let r = p - moov.start;
            let w = if t.co64 { 8 } else { 4 };
            v[r..r + w].fill(0);
        }
        if strip_meta && t.mdhd_lang_pos != 0 {
            let r = t.mdhd_lang_pos - moov.start;
            v[r..r + 2].copy_from_slice(&[0; 2]);
        }
    }
    if strip_meta {
        if let Some(u) = &m.udta {
            let (s, e) = (u.range.0 - moov.start, u.range.1 - moov.start);
            v.drain(s..e);
            let new_len = v.len() as u32;
            v[0..4].copy_from_slice(&new_len.to_be_bytes());
        }
    }
    v
}

// ---------------------------------------------------------------------------------------------
// Media segments (moof + mdat)
// ---------------------------------------------------------------------------------------------

#[derive(Clone, Debug, PartialEq, Eq)]
pub struct TrunSample {
    pub dur: Option<u32>,
    pub size: Option<u32>,
    pub flags: Option<u32>,
    pub cts: Option<i64>,
}

#[derive(Clone, Debug)]
pub struct Segment {
    pub seq: u32,
    pub tfhd_flags: u32,
    pub track_id: u32,
    pub tfdt_version: u8,
    pub base_decode_time: u64,
    pub trun_version: u8,
    pub trun_flags: u32,
    pub data_offset: Option<i32>,
    pub samples: Vec<TrunSample>,
    pub moof: (usize, usize),
    pub mdat_payload: (usize, usize),
    pub probs: Probs,
}

pub fn parse_segment(d: &[u8]) -> Segment {
    let mut pr = Probs::default();
    let mut s = Segment {
        seq: 0,
        tfhd_flags: 0,
        track_id: 0,
        tfdt_version: 0,
        base_decode_time: 0,
        trun_version: 0,
        trun_flags: 0,
        data_offset: None,
        samples: vec![],
        moof: (0, 0),
        mdat_payload: (0, 0),
        probs: Probs::default(),
    };
    let top = children(d, 0, d.len(), "seg", &mut pr);
    if !(top.len() == 2 && top[0].is(b"moof") && top[1].is(b"mdat")) {
        pr.add(
            Class::Mandatory,
            "seg/top",
            format!("segment is {:?}, not exactly moof + mdat", top.iter().map(|b| fcc(&b.typ)).collect::<Vec<_>>()),
        );
    }
    if let Some(b) = top.iter().find(|b| b.is(b"mdat")) {
        s.mdat_payload = (b.pstart(), b.end);
    }
    let Some(moof) = top.iter().find(|b| b.is(b"moof")) else {
        s.probs = pr;
        return s;
    };
    s.moof = (moof.start, moof.end);
    let mk = children(d, moof.pstart(), moof.end, "seg/moof", &mut pr);
    if !(mk.len() == 2 && mk[0].is(b"mfhd") && mk[1].is(b"traf")) {
        pr.add(Class::Mandatory, "seg/moof/kids", format!("moof holds {:?}", mk.iter().map(|b| fcc(&b.typ)).collect::<Vec<_>>()));
    }
    if let Some(b) = one(&mk, b"mfhd", "seg/moof", &mut pr) {
        let c = Ck::new(d, b, "seg/mfhd");
        c.expect_size(16, &mut pr);
        c.expect(c.u32(0) == 0, "vflags", format!("{:#x}", c.u32(0)), &mut pr);
        s.seq = c.u32(4);
    }
    let Some(traf) = one(&mk, b"traf", "seg/moof", &mut pr) else {
        s.probs = pr;
        return s;
    };
    let tk = children(d, traf.pstart(), traf.end, "seg/moof/traf", &mut pr);
    if !(tk.len() == 3 && tk[0].is(b"tfhd") && tk[1].is(b"tfdt") && tk[2].is(b"trun")) {
        pr.add(Class::Mandatory, "seg/traf/kids", format!("traf holds {:?}", tk.iter().map(|b| fcc(&b.typ)).collect::<Vec<_>>()));
    }
    if let Some(b) = one(&tk, b"tfhd", "seg/moof/traf", &mut pr) {
        let c = Ck::new(d, b, "seg/tfhd");
        c.expect(c.version() == 0, "version", format!("{}", c.version()), &mut pr);
        let f = c.flags();
        s.tfhd_flags = f;
        let mut want = 16;
        if f & 0x1 != 0 {
            want += 8;
        }
        for bit in [0x2, 0x8, 0x10, 0x20] {
            if f & bit != 0 {
                want += 4;
            }
        }
        c.expect(f & !(0x1 | 0x2 | 0x8 | 0x10 | 0x20 | 0x10000 | 0x20000) == 0, "flags", format!("unknown tfhd flags {f:#x}"), &mut pr);
        c.expect_size(want, &mut pr);
        s.track_id = c.u32(4);
    }
    if let Some(b) = one(&tk, b"tfdt", "seg/moof/traf", &mut pr) {
        let c = Ck::new(d, b, "seg/tfdt");
        let v = c.version();
        s.tfdt_version = v;
        c.expect(v <= 1, "version", format!("{v}"), &mut pr);
        c.expect(c.flags() == 0, "flags", format!("{:#x}", c.flags()), &mut pr);
        if v == 1 {
            c.expect_size(20, &mut pr);
            s.base_decode_time = c.u64(4);
        } else {
            c.expect_size(16, &mut pr);
            s.base_decode_time = c.u32(4) as u64;
        }
    }
    if let Some(b) = one(&tk, b"trun", "seg/moof/traf", &mut pr) {
        let c = Ck::new(d, b, "seg/trun");
        let v = c.version();
        let f = c.flags();
        s.trun_version = v;
        s.trun_flags = f;
        c.expect(v <= 1, "version", format!("{v}"), &mut pr);
        c.expect(f & !(0x1 | 0x4 | 0x100 | 0x200 | 0x400 | 0x800) == 0, "flags", format!("unknown trun flags {f:#x}"), &mut pr);
        let n = c.u32(4) as usize;
        let mut off = 8;
        if f & 0x1 != 0 {
            s.data_offset = Some(c.u32(off) as i32);
            off += 4;
        }
        if f & 0x4 != 0 {
            off += 4;
        }
        let per = [0x100, 0x200, 0x400, 0x800].iter().filter(|&&bit| f & bit != 0).count() * 4;
        if c.plen() != off + n * per {
            pr.add(Class::Count, "seg/trun/count", format!("sample_count {n} x {per} + {off} does not fill payload {}", c.plen()));
        } else {
            for i in 0..n {
                let mut o = off + i * per;
                let mut ts = TrunSample { dur: None, size: None, flags: None, cts: None };
                if f & 0x100 != 0 {
                    ts.dur = Some(c.u32(o));
                    o += 4;
                }
                if f & 0x200 != 0 {
                    ts.size = Some(c.u32(o));
                    o += 4;
                }
                if f & 0x400 != 0 {
                    ts.flags = Some(c.u32(o));
                    o += 4;
                }
                if f & 0x800 != 0 {
                    let raw = c.u32(o);
                    ts.cts = Some(if v == 0 { raw as i64 } else { raw as i32 as i64 });
                }
                if let Some(fl) = ts.flags {
                    c.expect(fl & 0xf000_0000 == 0, "sample_flags-reserved", format!("{fl:#x}"), &mut pr);
                }
                s.samples.push(ts);
            }
        }
    }
    s.probs = pr;
    s
}

pub fn describe(p: &[&Problem]) -> String {
    let mut s = String::new();
    for x in p.iter().take(6) {
        let _ = write!(s, "[{:?} {} :: {}] ", x.class, x.sig, x.detail);
    }
    if p.len() > 6 {
        let _ = write!(s, "(+{} more)", p.len() - 6);
    }
    s
}

#[cfg(test)]
mod tests {
    use super::*;

    #[test]
    fn largesize_boxes_tile() {
        let mut d = vec![0, 0, 0, 1];
        d.extend_from_slice(b"mdat");
        d.extend_from_slice(&24u64.to_be_bytes());
        d.extend_from_slice(&[7u8; 8]);
        d.extend_from_slice(&[0, 0, 0, 8]);
        d.extend_from_slice(b"free");
        let mut pr = Probs::default();
        let k = children(&d, 0, d.len(), "", &mut pr);
        assert!(pr.0.is_empty(), "{:?}", pr.0);
        assert_eq!(k.len(), 2);
        assert_eq!((k[0].start, k[0].end, k[0].pstart()), (0, 24, 16));
        assert_eq!((k[1].start, k[1].end, k[1].pstart()), (24, 32, 32));
        // a size field of 1 without room for the largesize field is still a tiling problem
        let mut pr = Probs::default();
        let _ = children(&d[..12], 0, 12, "", &mut pr);
        assert!(!pr.0.is_empty());
    }
}
