//! E4 - baton scheduler for real OS threads and a preemption-bounded stateless DFS over it.
//!
//! Exactly one thread runs between scheduling points. A thread calls `point(tid)` before every
//! step it wants the explorer to be able to interleave, and `done(tid)` when it ends. A decision
//! is taken only when every live thread is parked. The enabled list is canonical: the thread
//! that ran last first (if still live), then ascending ids, so choice 0 always means "do not
//! preempt". Replaying a choice prefix with an out-of-range choice is a hard error.

use std::sync::{Arc, Condvar, Mutex};
use std::time::{Duration, Instant};

#[derive(Clone, Debug, PartialEq, Eq)]
pub struct Point {
    pub choice: usize,
    pub enabled: Vec<usize>,
    pub last_still_enabled: bool,
}

#[derive(Clone, Debug)]
pub enum Policy {
    /// replay these choices, then choice 0 (never preempt) at every later point
    Prefix(Vec<usize>),
    /// always switch to the next live thread id after the one that ran last
    RoundRobin,
}

struct State {
    parked: Vec<bool>,
    done: Vec<bool>,
    /// thread currently allowed to run
    current: Option<usize>,
    last: Option<usize>,
    policy: Policy,
    pos: usize,
    record: Vec<Point>,
    error: Option<String>,
}

pub struct Sched {
    st: Mutex<State>,
    cv: Condvar,
    n: usize,
}

impl Sched {
    pub fn new(n: usize, policy: Policy) -> Arc<Sched> {
        Arc::new(Sched {
            st: Mutex::new(State { parked: vec![false; n], done: vec![false; n], current: None, last: None, policy, pos: 0, record: vec![], error: None }),
            cv: Condvar::new(),
            n,
        })
    }

    fn decide(&self, s: &mut State) {
        // precondition: every live thread is parked and nobody is running
        let live: Vec<usize> = (0..self.n).filter(|&i| !s.done[i]).collect();
        if live.is_empty() {
            s.current = None;
            return;
        }
        let mut enabled = vec![];
        let mut last_still = false;
        if let Some(l) = s.last {
            if !s.done[l] {
                enabled.push(l);
                last_still = true;
            }
        }
        for &i in &live {
            if Some(i) != s.last || !last_still {
                if !enabled.contains(&i) {
                    enabled.push(i);
                }
            }
        }
        let choice = match &s.policy {
            Policy::Prefix(p) => {
                if s.pos < p.len() {
                    p[s.pos]
                } else {
                    0
                }
            }
            Policy::RoundRobin => {
                // next id after the last one, cyclically
                match s.last {
                    None => 0,
                    Some(l) => {
                        let next = (1..=self.n).map(|d| (l + d) % self.n).find(|i| !s.done[*i]).unwrap();
                        enabled.iter().position(|&e| e == next).unwrap_or(0)
                    }
                }
            }
        };
        if choice >= enabled.len() {
            s.error = Some(format!("divergence while replaying: choice {choice} at point {} but only {} threads enabled", s.pos, enabled.len()));
            // let everybody run to completion so the process can report the error
            s.current = Some(enabled[0]);
        } else {
            s.current = Some(enabled[choice]);
        }
        s.record.push(Point { choice: choice.min(enabled.len() - 1), enabled: enabled.clone(), last_still_enabled: last_still });
        s.pos += 1;
        s.last = s.current;
    }

    fn all_parked(&self, s: &State) -> bool {
        (0..self.n).all(|i| s.done[i] || s.parked[i])
    }

    /// Scheduling point: park until this thread is chosen.
    pub fn point(&self, tid: usize) {
        let mut s = self.st.lock().unwrap();
        s.parked[tid] = true;
        if s.current == Some(tid) {
            s.current = None;
        }
        if s.current.is_none() && self.all_parked(&s) {
            self.decide(&mut s);
            self.cv.notify_all();
        }
        let start = Instant::now();
        while s.current != Some(tid) {
            let (g, to) = self.cv.wait_timeout(s, Duration::from_secs(5)).unwrap();
            s = g;
            if to.timed_out() && start.elapsed() > Duration::from_secs(20) {
                s.error = Some(format!("deadlock: thread {tid} waited 20 s at a scheduling point (a live thread is blocked outside point())"));
                s.current = Some(tid);
                break;
            }
        }
        s.parked[tid] = false;
    }

    /// The thread is finished.
    pub fn done(&self, tid: usize) {
        let mut s = self.st.lock().unwrap();
        s.done[tid] = true;
        s.parked[tid] = false;
        if s.current == Some(tid) {
            s.current = None;
        }
        if s.current.is_none() && self.all_parked(&s) {
            self.decide(&mut s);
            self.cv.notify_all();
        }
    }

    pub fn finish(&self) -> Result<Vec<Point>, String> {
        let s = self.st.lock().unwrap();
        match &s.error {
            Some(e) => Err(e.clone()),
            None => Ok(s.record.clone()),
        }
    }
}

/// preemptions among the first `upto` points of a recorded schedule
pub fn preemptions(points: &[Point], upto: usize) -> usize {
    points[..upto].iter().filter(|p| p.choice != 0 && p.last_still_enabled).count()
}

/// Stateless DFS with a preemption bound. `run` executes one schedule for a choice prefix and
/// returns the recorded points; `visit` is called once per completed schedule.
pub fn explore(bound: usize, run: &mut dyn FnMut(&[usize]) -> Result<Vec<Point>, String>, visit: &mut dyn FnMut(&[Point])) -> Result<u64, String> {
    fn rec(prefix: Vec<usize>, bound: usize, run: &mut dyn FnMut(&[usize]) -> Result<Vec<Point>, String>, visit: &mut dyn FnMut(&[Point]), n: &mut u64) -> Result<(), String> {
        let points = run(&prefix)?;
        // the replayed prefix must have been followed exactly
        for (i, &c) in prefix.iter().enumerate() {
            if points.get(i).map(|p| p.choice) != Some(c) {
                return Err(format!("divergence: prefix {prefix:?} not reproduced at point {i}"));
            }
        }
        *n += 1;
        visit(&points);
        for i in prefix.len()..points.len() {
            let p = &points[i];
            let before = preemptions(&points, i);
            for alt in 1..p.enabled.len() {
                let cost = before + if p.last_still_enabled { 1 } else { 0 };
                if cost > bound {
                    continue;
                }
                let mut np: Vec<usize> = points[..i].iter().map(|q| q.choice).collect();
                np.push(alt);
                rec(np, bound, run, visit, n)?;
            }
        }
        Ok(())
    }
    let mut n = 0;
    rec(vec![], bound, run, visit, &mut n)?;
    Ok(n)
}

#[cfg(test)]
mod tests {
    use super::*;
    use std::sync::atomic::{AtomicUsize, Ordering};

    /// the classic lost update must be found with one preemption and not with zero
    fn lost_update(bound: usize) -> (u64, bool) {
        let mut lost = false;
        let n = explore(
            bound,
            &mut |prefix| {
                let s = Sched::new(2, Policy::Prefix(prefix.to_vec()));
                let cell = Arc::new(AtomicUsize::new(0));
                let hs: Vec<_> = (0..2)
                    .map(|tid| {
                        let (s, cell) = (s.clone(), cell.clone());
                        std::thread::spawn(move || {
                            s.point(tid);
                            let v = cell.load(Ordering::SeqCst);
                            s.point(tid);
                            cell.store(v + 1, Ordering::SeqCst);
                            s.done(tid);
                        })
                    })
                    .collect();
                for h in hs {
                    h.join().unwrap();
                }
                if cell.load(Ordering::SeqCst) != 2 {
                    lost = true;
                }
                s.finish()
            },
            &mut |_| {},
        )
        .unwrap();
        (n, lost)
    }

    #[test]
    fn finds_lost_update_with_one_preemption() {
        assert_eq!(lost_update(0), (2, false));
        let (n, lost) = lost_update(1);
        assert!(lost && n > 2, "{n} schedules");
    }
}
