//! Operation alphabet of the progressive muxer, configuration, and the executable reference
//! model of the documented input contract (docs/contract.md + the statement of C04).

use crate::frames::{ACodec, VCodec};
use crate::refmodel::{adts_parse, annexb_units, opus_valid, tick, Adts};
use serde::{Deserialize, Deserializer, Serialize, Serializer};
use std::sync::Arc;

/// f64 that survives JSON (NaN / inf are written as strings via Rust's round-tripping Debug form)
#[derive(Clone, Copy, Debug)]
pub struct T(pub f64);

impl PartialEq for T {
    fn eq(&self, o: &T) -> bool {
        self.0.to_bits() == o.0.to_bits()
    }
}

impl Serialize for T {
    fn serialize<S: Serializer>(&self, s: S) -> Result<S::Ok, S::Error> {
        s.serialize_str(&format!("{:?}", self.0))
    }
}
impl<'de> Deserialize<'de> for T {
    fn deserialize<D: Deserializer<'de>>(d: D) -> Result<T, D::Error> {
        let s = String::deserialize(d)?;
        s.parse::<f64>().map(T).map_err(serde::de::Error::custom)
    }
}

/// shared byte string, hex in JSON
#[derive(Clone, Debug, PartialEq, Eq, Hash)]
pub struct Bytes(pub Arc<Vec<u8>>);

impl Bytes {
    pub fn new(v: Vec<u8>) -> Bytes {
        Bytes(Arc::new(v))
    }
}
impl std::ops::Deref for Bytes {
    type Target = [u8];
    fn deref(&self) -> &[u8] {
        &self.0
    }
}

pub fn hex(b: &[u8]) -> String {
    let mut s = String::with_capacity(b.len() * 2);
    for x in b {
        s.push_str(&format!("{x:02x}"));
    }
    s
}
pub fn unhex(s: &str) -> Option<Vec<u8>> {
    if s.len() % 2 != 0 {
        return None;
    }
    (0..s.len() / 2).map(|i| u8::from_str_radix(&s[2 * i..2 * i + 2], 16).ok()).collect()
}

impl Serialize for Bytes {
    fn serialize<S: Serializer>(&self, s: S) -> Result<S::Ok, S::Error> {
        s.serialize_str(&hex(&self.0))
    }
}
impl<'de> Deserialize<'de> for Bytes {
    fn deserialize<D: Deserializer<'de>>(d: D) -> Result<Bytes, D::Error> {
        let s = String::deserialize(d)?;
        unhex(&s).map(Bytes::new).ok_or_else(|| serde::de::Error::custom("bad hex"))
    }
}

#[derive(Clone, Debug, PartialEq, Serialize, Deserialize)]
pub struct AudioCfg {
    pub codec: ACodec,
    pub rate: u32,
    pub channels: u16,
}

#[derive(Clone, Debug, PartialEq, Eq, Default, Serialize, Deserialize)]
pub struct Meta {
    pub title: Option<String>,
    pub time: Option<u64>,
    pub lang: Option<String>,
}

#[derive(Clone, Debug, PartialEq, Serialize, Deserialize)]
pub struct Cfg {
    pub codec: VCodec,
    pub audio: Option<AudioCfg>,
    pub fast_start: bool,
    pub meta: Option<Meta>,
    pub width: u32,
    pub height: u32,
    /// an audio selection made on the builder BEFORE the one in `audio` (which overrides it); with
    /// `audio: None` the builder then receives AudioCodec::None, which withdraws the selection
    #[serde(default)]
    pub audio_first: Option<AudioCfg>,
}

impl Cfg {
    pub fn basic(codec: VCodec, audio: Option<ACodec>, fast_start: bool) -> Cfg {
        Cfg {
            codec,
            audio: audio.map(|c| AudioCfg { codec: c, rate: 48000, channels: 2 }),
            fast_start,
            meta: None,
            width: 640,
            height: 480,
            audio_first: None,
        }
    }
    pub fn short(&self) -> String {
        format!(
            "{:?}/{}/{}{}",
            self.codec,
            self.audio.as_ref().map(|a| format!("{:?}", a.codec)).unwrap_or_else(|| "noaudio".into()),
            if self.fast_start { "fast" } else { "std" },
            if self.meta.is_some() { "/meta" } else { "" }
        )
    }
}

#[derive(Clone, Debug, PartialEq, Serialize, Deserialize)]
pub enum Op {
    WV { pts: T, data: Bytes, key: bool },
    WVD { pts: T, dts: T, data: Bytes, key: bool },
    WA { pts: T, data: Bytes },
    EV { data: Bytes, dur_ms: u32 },
    EA { data: Bytes, samples: u32 },
    FinishInPlace,
    FinishInPlaceStats,
    /// consuming forms: terminal, nothing can follow
    Finish,
    FinishStats,
    Flush,
}

impl Op {
    pub fn is_finish(&self) -> bool {
        matches!(self, Op::FinishInPlace | Op::FinishInPlaceStats | Op::Finish | Op::FinishStats | Op::Flush)
    }
    pub fn is_consuming(&self) -> bool {
        matches!(self, Op::Finish | Op::FinishStats | Op::Flush)
    }
    pub fn brief(&self) -> String {
        match self {
            Op::WV { pts, data, key } => format!("wv({:?},{}B,{})", pts.0, data.len(), if *key { "K" } else { "d" }),
            Op::WVD { pts, dts, data, key } => format!("wvd(p{:?},d{:?},{}B,{})", pts.0, dts.0, data.len(), if *key { "K" } else { "d" }),
            Op::WA { pts, data } => format!("wa({:?},{}B)", pts.0, data.len()),
            Op::EV { data, dur_ms } => format!("ev({}B,{}ms)", data.len(), dur_ms),
            Op::EA { data, samples } => format!("ea({}B,{})", data.len(), samples),
            Op::FinishInPlace => "fin_in_place".into(),
            Op::FinishInPlaceStats => "fin_in_place_stats".into(),
            Op::Finish => "finish".into(),
            Op::FinishStats => "finish_stats".into(),
            Op::Flush => "flush".into(),
        }
    }
}

pub fn brief_ops(ops: &[Op]) -> String {
    ops.iter().map(|o| o.brief()).collect::<Vec<_>>().join(" ")
}

/// Classes of violated precondition (C04).
#[derive(Clone, Copy, PartialEq, Eq, Debug, Hash, PartialOrd, Ord, Serialize, Deserialize)]
pub enum Viol {
    Finished,
    EmptyData,
    NonFinite,
    Negative,
    VideoOrder,
    AudioOrder,
    AudioBeforeFirstVideo,
    AudioNotConfigured,
    FirstNotKey,
    FirstLacksConfig,
    BadAudioFraming,
    GapTooLarge,
    /// not a contract class: the sink failed / other I/O
    Io,
    /// not a contract class: builder
    MissingVideoConfig,
}

#[derive(Clone, Copy, PartialEq, Debug, Serialize, Deserialize)]
pub struct Stats {
    pub video_frames: u64,
    pub audio_frames: u64,
    pub duration_secs: T,
    pub bytes_written: u64,
}

/// Outcome of one call as seen through the public API.
#[derive(Clone, Debug, PartialEq, Serialize, Deserialize)]
pub enum Res {
    Ok,
    OkStats(Stats),
    /// class + Debug rendering of the error value
    Err(Viol, String),
    Panic(String),
    /// the muxer was consumed by an earlier call
    NotRun,
}

impl Res {
    pub fn is_ok(&self) -> bool {
        matches!(self, Res::Ok | Res::OkStats(_))
    }
    pub fn brief(&self) -> String {
        match self {
            Res::Ok => "Ok".into(),
            Res::OkStats(s) => format!("Ok(v{} a{} {:?}s {}B)", s.video_frames, s.audio_frames, s.duration_secs.0, s.bytes_written),
            Res::Err(v, _) => format!("Err({v:?})"),
            Res::Panic(m) => format!("PANIC({})", m.chars().take(60).collect::<String>()),
            Res::NotRun => "-".into(),
        }
    }
}

// ---------------------------------------------------------------------------------------------
// "carries its configuration" / derived key flag, decided by reference walkers
// ---------------------------------------------------------------------------------------------

pub fn av1_has_seq_header(d: &[u8]) -> bool {
    let mut p = 0usize;
    while p < d.len() {
        let h = d[p];
        if h & 0x80 != 0 {
            return false;
        }
        let typ = (h >> 3) & 0xf;
        let mut hl = 1;
        if h & 4 != 0 {
            hl += 1;
        }
        if p + hl > d.len() {
            return false;
        }
        let plen;
        if h & 2 != 0 {
            let mut v = 0usize;
            let mut sh = 0;
            let mut k = 0;
            loop {
                if p + hl + k >= d.len() || k >= 8 {
                    return false;
                }
                let b = d[p + hl + k];
                v |= ((b & 0x7f) as usize) << sh;
                sh += 7;
                k += 1;
                if b & 0x80 == 0 {
                    break;
                }
            }
            hl += k;
            plen = v;
        } else {
            plen = d.len() - p - hl;
        }
        if p + hl + plen > d.len() {
            return false;
        }
        if typ == 1 && plen > 0 {
            return true;
        }
        p += hl + plen;
    }
    false
}

pub fn vp9_is_key_header(d: &[u8]) -> bool {
    d.len() >= 6 && d[0] == 0x49 && d[1] == 0x83 && d[2] == 0x42 && (d[3] >> 5) & 1 == 0 && (d[3] >> 4) & 1 == 0
}

pub fn carries_config(codec: VCodec, d: &[u8]) -> bool {
    match codec {
        VCodec::H264 => {
            let u = annexb_units(d);
            let has = |t: u8| u.iter().any(|x| !x.is_empty() && x[0] & 0x1f == t && x.len() <= 0xffff);
            has(7) && has(8)
        }
        VCodec::H265 => {
            let u = annexb_units(d);
            let has = |t: u8| u.iter().any(|x| !x.is_empty() && (x[0] >> 1) & 0x3f == t && x.len() <= 0xffff);
            has(32) && has(33) && has(34)
        }
        VCodec::Av1 => av1_has_seq_header(d),
        VCodec::Vp9 => vp9_is_key_header(d),
    }
}

/// The key flag the convenience path documents it derives (IDR for H.264, IDR/CRA types 19-21
/// for H.265, "first frame" for AV1, keyframe header for VP9).
pub fn derived_key(codec: VCodec, d: &[u8], accepted_video: u64) -> bool {
    match codec {
        VCodec::H264 => annexb_units(d).iter().any(|x| !x.is_empty() && x[0] & 0x1f == 5),
        VCodec::H265 => annexb_units(d).iter().any(|x| !x.is_empty() && (19..=21).contains(&((x[0] >> 1) & 0x3f))),
        VCodec::Av1 => accepted_video == 0,
        VCodec::Vp9 => d.len() >= 4 && d[0] == 0x49 && d[1] == 0x83 && d[2] == 0x42 && (d[3] >> 5) & 1 == 0 && (d[3] >> 4) & 1 == 0,
    }
}

// ---------------------------------------------------------------------------------------------
// Contract automaton
// ---------------------------------------------------------------------------------------------

#[derive(Clone, Debug, PartialEq)]
pub struct Contract {
    pub codec: VCodec,
    pub audio: Option<ACodec>,
    pub audio_rate: u32,
    pub finished: bool,
    /// a finish attempt failed (sink error): the object is dead but not "finished" in the model
    pub failed_finish: bool,
    /// configured width or height does not fit the 16-bit fields of the sample entry: finish is
    /// then refused (C16), which C04's list of preconditions does not mention - either outcome of
    /// that finish call is accepted, and the muxer counts as finished afterwards in both cases
    pub oversized: bool,
    pub accepted_video: u64,
    pub accepted_audio: u64,
    pub first_video_pts: Option<f64>,
    pub last_video_pts: Option<f64>,
    pub last_video_dts_tick: Option<u64>,
    pub last_video_dts_secs: Option<f64>,
    pub first_video_dts_tick: Option<u64>,
    pub first_audio_tick: Option<u64>,
    pub last_audio_pts: Option<f64>,
    pub last_audio_tick: Option<u64>,
    pub cursor_video: f64,
    pub cursor_audio: f64,
}

/// Verdict for one call: the set of violated classes; `either` = the statement lists two
/// readings for this input, so both outcomes are accepted (state follows the implementation).
#[derive(Clone, Debug, PartialEq)]
pub struct Verdict {
    pub viol: Vec<Viol>,
    pub either: bool,
}

/// tick of a time the implementation accepted; an accepted time that is not a time (already
/// reported as a violation by the caller) must not take the model down
fn tick_or_zero(x: f64) -> u64 {
    if x.is_finite() && x >= 0.0 {
        tick(x)
    } else {
        0
    }
}

impl Contract {
    pub fn new(cfg: &Cfg) -> Contract {
        Contract {
            codec: cfg.codec,
            audio: cfg.audio.as_ref().map(|a| a.codec),
            audio_rate: cfg.audio.as_ref().map(|a| a.rate).unwrap_or(0),
            finished: false,
            failed_finish: false,
            oversized: cfg.width > 65535 || cfg.height > 65535,
            accepted_video: 0,
            accepted_audio: 0,
            first_video_pts: None,
            last_video_pts: None,
            last_video_dts_tick: None,
            last_video_dts_secs: None,
            first_video_dts_tick: None,
            first_audio_tick: None,
            last_audio_pts: None,
            last_audio_tick: None,
            cursor_video: 0.0,
            cursor_audio: 0.0,
        }
    }

    fn time_viol(v: &mut Vec<Viol>, t: f64) -> bool {
        if !t.is_finite() {
            v.push(Viol::NonFinite);
            false
        } else if t < 0.0 {
            v.push(Viol::Negative);
            false
        } else {
            true
        }
    }

    fn video(&self, pts: f64, dts: f64, via_write_video: bool, data: &[u8], key: bool) -> Verdict {
        let mut v = vec![];
        if self.finished || self.failed_finish {
            v.push(Viol::Finished);
        }
        if data.is_empty() {
            v.push(Viol::EmptyData);
        }
        let p_ok = Self::time_viol(&mut v, pts);
        let d_ok = if via_write_video { p_ok } else { Self::time_viol(&mut v, dts) };
        if p_ok && via_write_video {
            if let Some(l) = self.last_video_pts {
                if pts <= l {
                    v.push(Viol::VideoOrder);
                }
            }
        }
        if d_ok {
            let t = tick(dts);
            if let Some(l) = self.last_video_dts_tick {
                if t <= l {
                    v.push(Viol::VideoOrder);
                } else if t - l > u32::MAX as u64 {
                    v.push(Viol::GapTooLarge);
                } else if let Some(f) = self.first_video_dts_tick {
                    // the track duration (last sample repeating this gap) must fit 32 bits too
                    if (t - f) + (t - l) > u32::MAX as u64 {
                        v.push(Viol::GapTooLarge);
                    }
                }
            }
            if p_ok {
                // composition offset must fit the signed 32-bit field
                let c = tick(pts) as i128 - t as i128;
                if c > i32::MAX as i128 || c < i32::MIN as i128 {
                    v.push(Viol::GapTooLarge);
                }
            }
        }
        if self.accepted_video == 0 {
            if !key {
                v.push(Viol::FirstNotKey);
            }
            if !data.is_empty() && !carries_config(self.codec, data) {
                v.push(Viol::FirstLacksConfig);
            }
        }
        v.sort();
        v.dedup();
        Verdict { viol: v, either: false }
    }

    fn audio_call(&self, pts: f64, data: &[u8]) -> Verdict {
        let mut v = vec![];
        let mut either = false;
        if self.finished || self.failed_finish {
            v.push(Viol::Finished);
        }
        if self.audio.is_none() {
            v.push(Viol::AudioNotConfigured);
        }
        let ok = Self::time_viol(&mut v, pts);
        if data.is_empty() {
            v.push(Viol::EmptyData);
        }
        if ok {
            if let Some(l) = self.last_audio_pts {
                if pts < l {
                    v.push(Viol::AudioOrder);
                }
            }
            match self.first_video_pts {
                None => v.push(Viol::AudioBeforeFirstVideo),
                Some(f) if pts < f => v.push(Viol::AudioBeforeFirstVideo),
                _ => {}
            }
            if let Some(l) = self.last_audio_tick {
                let t = tick(pts);
                if t > l && t - l > u32::MAX as u64 {
                    v.push(Viol::GapTooLarge);
                } else if let Some(f) = self.first_audio_tick {
                    if t >= l && (t - f) + (t - l) > u32::MAX as u64 {
                        v.push(Viol::GapTooLarge);
                    }
                }
            }
        }
        if !data.is_empty() {
            match self.audio {
                Some(ACodec::Opus) => {
                    if !opus_valid(data) {
                        v.push(Viol::BadAudioFraming);
                    }
                }
                Some(_) => match adts_parse(data) {
                    Adts::Invalid(_) => v.push(Viol::BadAudioFraming),
                    Adts::Valid { header_len, frame_len } => {
                        if header_len == frame_len {
                            // structurally valid framing around no data: both "non-empty data"
                            // and "valid framing" are listed, so either reading is accepted
                            either = true;
                        }
                    }
                },
                None => {}
            }
        }
        v.sort();
        v.dedup();
        Verdict { viol: v, either }
    }

    /// What the contract says about `op` in the current state.
    pub fn judge(&self, op: &Op) -> Verdict {
        match op {
            Op::WV { pts, data, key } => self.video(pts.0, pts.0, true, data, *key),
            Op::WVD { pts, dts, data, key } => self.video(pts.0, dts.0, false, data, *key),
            Op::WA { pts, data } => self.audio_call(pts.0, data),
            Op::EV { data, .. } => {
                let key = !data.is_empty() && derived_key(self.codec, data, self.accepted_video);
                self.video(self.cursor_video, self.cursor_video, true, data, key)
            }
            Op::EA { data, .. } => self.audio_call(self.cursor_audio, data),
            _ => {
                let mut v = vec![];
                if self.finished || self.failed_finish {
                    v.push(Viol::Finished);
                    Verdict { viol: v, either: false }
                } else if self.oversized {
                    Verdict { viol: vec![Viol::Io], either: true }
                } else {
                    Verdict { viol: v, either: false }
                }
            }
        }
    }

    /// Advance by what actually happened (`ok`), after `judge` was compared with it.
    pub fn advance(&mut self, op: &Op, ok: bool) {
        match op {
            Op::WV { pts, .. } if ok => self.accept_video(pts.0, pts.0),
            Op::WVD { pts, dts, .. } if ok => self.accept_video(pts.0, dts.0),
            Op::WA { pts, .. } if ok => self.accept_audio(pts.0),
            Op::EV { dur_ms, .. } if ok => {
                let p = self.cursor_video;
                self.accept_video(p, p);
                self.cursor_video += *dur_ms as f64 / 1000.0;
            }
            Op::EA { samples, .. } if ok => {
                let p = self.cursor_audio;
                self.accept_audio(p);
                // (no configured rate: only reachable when the implementation accepted a call it
                // had to refuse, which has been reported; the model must survive it)
                if self.audio_rate != 0 {
                    self.cursor_audio += *samples as f64 / self.audio_rate as f64;
                }
            }
            o if o.is_finish() => {
                if ok {
                    self.finished = true;
                } else if !self.finished {
                    self.failed_finish = true;
                }
            }
            _ => {}
        }
    }

    fn accept_video(&mut self, pts: f64, dts: f64) {
        if self.first_video_pts.is_none() {
            self.first_video_pts = Some(pts);
        }
        self.last_video_pts = Some(pts);
        self.last_video_dts_tick = Some(tick_or_zero(dts));
        self.last_video_dts_secs = Some(dts);
        if self.first_video_dts_tick.is_none() {
            self.first_video_dts_tick = Some(tick_or_zero(dts));
        }
        self.accepted_video += 1;
    }
    fn accept_audio(&mut self, pts: f64) {
        self.last_audio_pts = Some(pts);
        self.last_audio_tick = Some(tick_or_zero(pts));
        if self.first_audio_tick.is_none() {
            self.first_audio_tick = Some(tick_or_zero(pts));
        }
        self.accepted_audio += 1;
    }
}
