//! Oracle side of the muxide verification harness: no dependency on muxide.
pub mod fileck;
pub mod hist;
pub mod frames;
pub mod model;
pub mod reader;
pub mod refmodel;
pub mod report;
pub mod sched;
