//! File-level oracles for progressive files: what the file must say, given what was submitted.
//! Each function returns a list of (signature, detail); empty = the property held for this file.

use crate::frames::VCodec;
use crate::model::{Cfg, Op, Res};
use crate::reader::{self, Class, Movie, SampleLoc, Track};
use crate::refmodel::{adts_parse, annexb_to_lp, tick, Adts};
use std::sync::Arc;

#[derive(Clone, Debug, PartialEq)]
pub struct ExpSample {
    pub bytes: Arc<Vec<u8>>,
    pub pts: u64,
    pub dts: u64,
    pub key: bool,
    pub pts_secs: f64,
}

#[derive(Clone, Debug, Default, PartialEq)]
pub struct Expect {
    pub video: Vec<ExpSample>,
    pub audio: Vec<ExpSample>,
}

pub type Issues = Vec<(String, String)>;

/// Bytes the container must hold for an accepted video frame.
pub fn stored_video(codec: VCodec, data: &[u8]) -> Vec<u8> {
    match codec {
        VCodec::H264 | VCodec::H265 => annexb_to_lp(data),
        _ => data.to_vec(),
    }
}

pub fn stored_audio(aac: bool, data: &[u8]) -> Vec<u8> {
    if aac {
        match adts_parse(data) {
            Adts::Valid { header_len, frame_len } => data[header_len..frame_len].to_vec(),
            Adts::Invalid(_) => vec![],
        }
    } else {
        data.to_vec()
    }
}

/// The accepted frames of a history, from the operation list and the observed result vector.
/// Convenience writes are placed at the cursor the documentation describes.
pub fn expect_from(cfg: &Cfg, ops: &[Op], res: &[Res]) -> Expect {
    let mut e = Expect::default();
    let aac = cfg.audio.as_ref().map(|a| a.codec.is_aac()).unwrap_or(false);
    let rate = cfg.audio.as_ref().map(|a| a.rate).unwrap_or(1) as f64;
    let (mut cv, mut ca) = (0.0f64, 0.0f64);
    let mut accepted_video = 0u64;
    for (op, r) in ops.iter().zip(res.iter()) {
        let ok = r.is_ok();
        match op {
            Op::WV { pts, data, key } if ok => {
                e.video.push(ExpSample { bytes: Arc::new(stored_video(cfg.codec, data)), pts: tick(pts.0), dts: tick(pts.0), key: *key, pts_secs: pts.0 });
                accepted_video += 1;
            }
            Op::WVD { pts, dts, data, key } if ok => {
                e.video.push(ExpSample { bytes: Arc::new(stored_video(cfg.codec, data)), pts: tick(pts.0), dts: tick(dts.0), key: *key, pts_secs: pts.0 });
                accepted_video += 1;
            }
            Op::WA { pts, data } if ok => {
                e.audio.push(ExpSample { bytes: Arc::new(stored_audio(aac, data)), pts: tick(pts.0), dts: tick(pts.0), key: true, pts_secs: pts.0 });
            }
            Op::EV { data, dur_ms } if ok => {
                let key = crate::model::derived_key(cfg.codec, data, accepted_video);
                e.video.push(ExpSample { bytes: Arc::new(stored_video(cfg.codec, data)), pts: tick(cv), dts: tick(cv), key, pts_secs: cv });
                cv += *dur_ms as f64 / 1000.0;
                accepted_video += 1;
            }
            Op::EA { data, samples } if ok => {
                e.audio.push(ExpSample { bytes: Arc::new(stored_audio(aac, data)), pts: tick(ca), dts: tick(ca), key: true, pts_secs: ca });
                ca += *samples as f64 / rate;
            }
            _ => {}
        }
    }
    e
}

fn track_samples(t: &Track, what: &str, out: &mut Issues) -> Option<Vec<SampleLoc>> {
    match t.samples() {
        Ok(s) => Some(s),
        Err(e) => {
            out.push((format!("{what}/tables-unexpandable"), e));
            None
        }
    }
}

/// C02 for a progressive file.
pub fn c02_progressive(m: &Movie, cfg: &Cfg) -> Issues {
    let mut out = Issues::new();
    for p in m.probs.of(&[Class::Tile, Class::Mandatory, Class::Count]) {
        out.push((format!("prog{}", if p.sig.starts_with('/') { p.sig.clone() } else { format!("/{}", p.sig) }), p.detail.clone()));
    }
    let want = 1 + cfg.audio.is_some() as usize;
    if m.tracks.len() != want {
        out.push(("prog/track-count".into(), format!("{} tracks, {} configured streams", m.tracks.len(), want)));
    }
    if m.video().is_none() {
        out.push(("prog/no-video-track".into(), "no track with handler vide".into()));
    }
    if cfg.audio.is_some() && m.audio().is_none() {
        out.push(("prog/no-audio-track".into(), "audio configured but no track with handler soun".into()));
    }
    if !m.trex.is_empty() {
        out.push(("prog/mvex-in-progressive".into(), "movie-extends box in a progressive file".into()));
    }
    out
}

/// C01: every sample resolves to the submitted bytes and key flag; ranges tile the mdat payload.
pub fn c01(d: &[u8], m: &Movie, cfg: &Cfg, e: &Expect) -> Issues {
    let mut out = Issues::new();
    let mut ranges: Vec<(u64, u64, String)> = vec![];
    let mut check = |t: Option<&Track>, exp: &[ExpSample], what: &str, is_video: bool, out: &mut Issues| {
        let Some(t) = t else {
            out.push((format!("{what}/track-missing"), "track absent".into()));
            return;
        };
        let Some(s) = track_samples(t, what, out) else { return };
        if s.len() != exp.len() {
            out.push((format!("{what}/sample-count"), format!("file has {} samples, {} frames were accepted", s.len(), exp.len())));
            return;
        }
        for (i, (loc, ex)) in s.iter().zip(exp.iter()).enumerate() {
            let (a, b) = (loc.offset as usize, loc.offset as usize + loc.size as usize);
            ranges.push((loc.offset, loc.offset + loc.size as u64, format!("{what}[{i}]")));
            if b > d.len() {
                out.push((format!("{what}/range-beyond-file"), format!("sample {i} at {a}..{b}, file {}", d.len())));
                continue;
            }
            if d[a..b] != ex.bytes[..] {
                let kind = if loc.size as usize != ex.bytes.len() { "sample-size" } else { "sample-bytes" };
                out.push((
                    format!("{what}/{kind}"),
                    format!("sample {i}: file holds {} bytes {:02x?}.., submitted frame stores as {} bytes {:02x?}..", b - a, &d[a..b.min(a + 12)], ex.bytes.len(), &ex.bytes[..ex.bytes.len().min(12)]),
                ));
            }
            if is_video && loc.sync != ex.key {
                out.push((format!("{what}/sync-flag"), format!("sample {i}: file sync={}, submitted key={}", loc.sync, ex.key)));
            }
        }
    };
    check(m.video(), &e.video, "video", true, &mut out);
    if cfg.audio.is_some() {
        check(m.audio(), &e.audio, "audio", false, &mut out);
    }
    // ranges inside mdat, pairwise disjoint, covering it exactly
    let (ms, me) = match m.mdat {
        Some((s, e)) => (s as u64, e as u64),
        None => (0, 0),
    };
    ranges.sort();
    if m.mdat.is_none() {
        if !ranges.is_empty() {
            out.push(("mdat/missing".into(), format!("{} samples but no mdat", ranges.len())));
        }
    } else {
        let mut pos = ms;
        for (a, b, name) in &ranges {
            if *a < pos {
                out.push(("mdat/overlap-or-before".into(), format!("{name} at {a}..{b} overlaps the previous sample or starts before the mdat payload ({pos})")));
                break;
            }
            if *a > pos {
                out.push(("mdat/gap".into(), format!("{} unreferenced bytes before {name} at {a}", a - pos)));
                break;
            }
            pos = *b;
        }
        if out.iter().all(|(s, _)| !s.starts_with("mdat/")) && pos != me {
            if pos > me {
                out.push(("mdat/sample-beyond-end".into(), format!("samples end at {pos}, mdat payload ends at {me}")));
            } else {
                out.push(("mdat/trailing-unreferenced".into(), format!("{} bytes of mdat payload not covered by any sample", me - pos)));
            }
        }
    }
    out
}

/// C03: stts / ctts / mdhd against the submitted timestamps (exact, per absolute rounding).
pub fn c03(m: &Movie, cfg: &Cfg, e: &Expect) -> Issues {
    let mut out = Issues::new();
    let check = |t: Option<&Track>, exp: &[ExpSample], what: &str, out: &mut Issues| {
        let Some(t) = t else { return };
        let Some(s) = track_samples(t, what, out) else { return };
        if s.len() != exp.len() {
            return; // C01's business
        }
        let n = s.len();
        let mut sum = 0u64;
        for i in 0..n {
            sum += s[i].dur as u64;
            if i + 1 < n {
                let want = exp[i + 1].dts as i128 - exp[i].dts as i128;
                if s[i].dur as i128 != want {
                    out.push((format!("{what}/stts-delta"), format!("sample {i}: duration {} but decode times differ by {want}", s[i].dur)));
                    break;
                }
            } else if n >= 2 && s[i].dur != s[i - 1].dur {
                out.push((format!("{what}/last-duration"), format!("last sample duration {} != preceding interval {}", s[i].dur, s[i - 1].dur)));
            }
        }
        // no drift: decode time of sample k relative to sample 0
        for k in 1..n {
            let want = exp[k].dts as i128 - exp[0].dts as i128;
            if s[k].dts as i128 != want {
                out.push((format!("{what}/drift"), format!("sample {k}: decode time {} in file, {want} submitted (relative to first)", s[k].dts)));
                break;
            }
        }
        let any = exp.iter().any(|x| x.pts != x.dts);
        if any != t.ctts.is_some() {
            out.push((format!("{what}/ctts-presence"), format!("ctts present={} but some offset non-zero={}", t.ctts.is_some(), any)));
        }
        for i in 0..n {
            let want = exp[i].pts as i128 - exp[i].dts as i128;
            if s[i].cts as i128 != want {
                out.push((format!("{what}/ctts-offset"), format!("sample {i}: composition offset {} but pts-dts = {want}", s[i].cts)));
                break;
            }
        }
        if t.mdhd.duration != sum {
            out.push((format!("{what}/mdhd-duration"), format!("mdhd duration {} but sample durations sum to {sum}", t.mdhd.duration)));
        }
    };
    check(m.video(), &e.video, "video", &mut out);
    if cfg.audio.is_some() {
        check(m.audio(), &e.audio, "audio", &mut out);
    }
    out
}

/// C15: storage order.
pub fn c15(d: &[u8], m: &Movie, cfg: &Cfg, e: &Expect) -> Issues {
    let mut out = Issues::new();
    if cfg.audio.is_none() {
        return out;
    }
    let (Some(v), Some(a)) = (m.video(), m.audio()) else { return out };
    let (Some(vs), Some(as_)) = (track_samples(v, "video", &mut out), track_samples(a, "audio", &mut out)) else { return out };
    if vs.len() != e.video.len() || as_.len() != e.audio.len() {
        return out;
    }
    for (s, what) in [(&vs, "video"), (&as_, "audio")] {
        for i in 1..s.len() {
            if s[i].offset <= s[i - 1].offset {
                out.push((format!("{what}/not-in-sample-order"), format!("sample {i} at {} stored before sample {} at {}", s[i].offset, i - 1, s[i - 1].offset)));
                break;
            }
        }
    }
    // "stored in sample order" is a statement about the payloads, not only about the offsets in
    // the table: sample i's range must hold sample i's bytes (a writer that emits payloads in
    // another order than it numbers them keeps monotone offsets)
    for (s, exp, what) in [(&vs, &e.video, "video"), (&as_, &e.audio, "audio")] {
        for (i, (loc, x)) in s.iter().zip(exp.iter()).enumerate() {
            let (a, b) = (loc.offset as usize, loc.offset as usize + loc.size as usize);
            if b > d.len() || d[a..b] != x.bytes[..] {
                out.push((format!("{what}/sample-order-by-content"), format!("the range the table gives for sample {i} ({a}..{b}) does not hold that sample's payload")));
                break;
            }
        }
    }
    // reordering = presentation order differs from decode order; a composition delay that
    // keeps the order is not reordering. With offsets and without reordering the statement does
    // not say which of the two timestamps the merge follows: either is accepted.
    let reordered = e.video.windows(2).any(|w| w[1].pts <= w[0].pts) && e.video.iter().any(|x| x.pts != x.dts);
    if !reordered {
        let merge = |use_dts: bool| {
            let mut by_time: Vec<(u64, u8, usize)> = vec![];
            for (i, x) in e.video.iter().enumerate() {
                by_time.push((if use_dts { x.dts } else { x.pts }, 0, i));
            }
            for (i, x) in e.audio.iter().enumerate() {
                by_time.push((x.pts, 1, i));
            }
            by_time.sort();
            by_time.iter().map(|x| (x.1, x.2)).collect::<Vec<(u8, usize)>>()
        };
        // (offset, track, index) by file offset must equal sort by (tick, video first, index)
        let mut by_off: Vec<(u64, u8, usize)> = vec![];
        for (i, s) in vs.iter().enumerate() {
            by_off.push((s.offset, 0, i));
        }
        for (i, s) in as_.iter().enumerate() {
            by_off.push((s.offset, 1, i));
        }
        by_off.sort();
        let o: Vec<(u8, usize)> = by_off.iter().map(|x| (x.1, x.2)).collect();
        let (t_dts, t_pts) = (merge(true), merge(false));
        if o != t_dts && o != t_pts {
            out.push(("interleave/not-timestamp-merge".into(), format!("storage order {o:?} but the timestamp merge is {t_dts:?} by decode time / {t_pts:?} by presentation time (0=video,1=audio)")));
        }
    }
    out
}

/// Presentation position (media ticks on the movie timeline) of composition time `comp`,
/// honouring the track's edit list when there is one.
fn present(t: &Track, movie_ts: i128, comp: i128) -> Option<i128> {
    let Some(el) = &t.elst else { return Some(comp) };
    let mts = t.mdhd.timescale as i128;
    let mut start = 0i128;
    let n = el.entries.len();
    for (i, &(dur, mt, _, _)) in el.entries.iter().enumerate() {
        let dur_media = dur as i128 * mts / movie_ts.max(1);
        if mt >= 0 {
            let mt = mt as i128;
            let open_ended = i + 1 == n || dur == 0;
            if comp >= mt && (open_ended || comp < mt + dur_media) {
                return Some(start + comp - mt);
            }
        }
        start += dur_media;
    }
    None
}

/// C09: audio presentation relative to the first video presentation (edit lists honoured).
/// The pure missing-start-offset shape gets the dedicated signature `C09/no-start-offset`.
pub fn c09(m: &Movie, e: &Expect) -> Issues {
    let mut out = Issues::new();
    let (Some(v), Some(a)) = (m.video(), m.audio()) else { return out };
    let (Some(vs), Some(as_)) = (track_samples(v, "video", &mut out), track_samples(a, "audio", &mut out)) else { return out };
    if vs.len() != e.video.len() || as_.len() != e.audio.len() || vs.is_empty() || as_.is_empty() {
        return out;
    }
    let movie_ts = m.mvhd.as_ref().map(|h| h.timescale).unwrap_or(1000) as i128;
    let Some(pv0) = present(v, movie_ts, vs[0].dts as i128 + vs[0].cts as i128) else {
        out.push(("edit-list-drops-first-video".into(), "first video sample not presented".into()));
        return out;
    };
    let mut errs: Vec<i128> = vec![];
    for k in 0..as_.len() {
        let Some(pa) = present(a, movie_ts, as_[k].dts as i128 + as_[k].cts as i128) else {
            out.push(("edit-list-drops-sample".into(), format!("audio sample {k} not presented by the edit list")));
            return out;
        };
        let want = e.audio[k].pts as i128 - e.video[0].pts as i128;
        // each track's times are in its own media timescale (mdhd); the submitted difference is
        // in 90 kHz ticks. With both at 90 kHz this is a plain difference, otherwise the times
        // are brought to 90 kHz first (rounded to the nearest tick).
        let (vts, ats) = (v.mdhd.timescale.max(1) as i128, a.mdhd.timescale.max(1) as i128);
        let got = if vts == 90_000 && ats == 90_000 {
            pa - pv0
        } else {
            let to90k = |x: i128, ts: i128| (x * 90_000 * 2 + ts) / (2 * ts);
            to90k(pa, ats) - to90k(pv0, vts)
        };
        errs.push(got - want);
    }
    if errs.iter().all(|x| x.abs() <= 1) {
        return out;
    }
    // The recorded finding: neither track has an edit list and every audio sample is off by the
    // same amount, namely exactly the lost start offset: both timelines start at zero, so
    // got_k = (a_k - a_0) - cts0 and want_k = a_k - v_0, error = -(a_0 - v_0) - cts0.
    let no_elst = v.elst.is_none() && a.elst.is_none();
    let cts0 = e.video[0].pts as i128 - e.video[0].dts as i128;
    let start_diff = e.audio[0].pts as i128 - e.video[0].pts as i128;
    let expected_err = -start_diff - cts0;
    if no_elst && errs.iter().all(|&x| x == expected_err) {
        out.push((
            "C09/no-start-offset".into(),
            format!("no edit list is written: every audio sample is off by the same {expected_err} ticks = the lost start offset (first audio {start_diff} ticks after first video; first video composition offset {cts0})"),
        ));
    } else {
        out.push(("av-sync".into(), format!("audio presentation errors relative to the first video frame (ticks): {errs:?}; expected at most 1; elst video={:?} audio={:?}", v.elst, a.elst)));
    }
    out
}

/// Differential equality used by C08 / C18: same tracks, samples, timing, configuration.
pub fn same_movie(d1: &[u8], m1: &Movie, d2: &[u8], m2: &Movie, strip_meta: bool) -> Issues {
    let mut out = Issues::new();
    let r1 = reader::reduced_moov(d1, m1, strip_meta);
    let r2 = reader::reduced_moov(d2, m2, strip_meta);
    if r1 != r2 {
        let pos = r1.iter().zip(r2.iter()).position(|(a, b)| a != b).unwrap_or(r1.len().min(r2.len()));
        out.push(("moov-differs".into(), format!("reduced moov differs at byte {pos} (lengths {} / {})", r1.len(), r2.len())));
    }
    if m1.tracks.len() != m2.tracks.len() {
        out.push(("track-count-differs".into(), format!("{} vs {}", m1.tracks.len(), m2.tracks.len())));
        return out;
    }
    for (i, (t1, t2)) in m1.tracks.iter().zip(m2.tracks.iter()).enumerate() {
        match (t1.samples(), t2.samples()) {
            (Ok(s1), Ok(s2)) => {
                if s1.len() != s2.len() {
                    out.push(("sample-count-differs".into(), format!("track {i}: {} vs {}", s1.len(), s2.len())));
                    continue;
                }
                for (k, (a, b)) in s1.iter().zip(s2.iter()).enumerate() {
                    let ba = d1.get(a.offset as usize..a.offset as usize + a.size as usize);
                    let bb = d2.get(b.offset as usize..b.offset as usize + b.size as usize);
                    if ba.is_none() || ba != bb {
                        out.push(("sample-bytes-differ".into(), format!("track {i} sample {k} resolves to different bytes in the two files")));
                        break;
                    }
                }
            }
            (a, b) => {
                if a.is_err() != b.is_err() {
                    out.push(("tables-differ".into(), format!("track {i}: one file's tables do not expand")));
                }
            }
        }
    }
    out
}
