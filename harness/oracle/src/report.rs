//! Tallies, evidence files, known-findings matching, replay artefacts, parallel work splitting.

use serde_json::{json, Value};
use std::cell::RefCell;
use std::collections::{BTreeMap, HashSet};
use std::sync::atomic::{AtomicUsize, Ordering};
use std::time::Instant;

pub fn root() -> String {
    std::env::var("VERIF_ROOT").unwrap_or_else(|_| "/verif".to_string())
}

// ---------------------------------------------------------------------------------------------
// hashing (FNV-1a, deterministic across runs)
// ---------------------------------------------------------------------------------------------

#[derive(Clone, Copy)]
pub struct Fnv(pub u64);

impl Fnv {
    pub fn new() -> Fnv {
        Fnv(0xcbf2_9ce4_8422_2325)
    }
    pub fn bytes(&mut self, b: &[u8]) -> &mut Self {
        for &x in b {
            self.0 ^= x as u64;
            self.0 = self.0.wrapping_mul(0x0000_0100_0000_01b3);
        }
        self
    }
    pub fn u64(&mut self, v: u64) -> &mut Self {
        self.bytes(&v.to_le_bytes())
    }
    pub fn str(&mut self, s: &str) -> &mut Self {
        self.bytes(s.as_bytes()).bytes(&[0xff])
    }
}

impl Default for Fnv {
    fn default() -> Self {
        Self::new()
    }
}

pub fn h64(b: &[u8]) -> u64 {
    Fnv::new().bytes(b).0
}

// ---------------------------------------------------------------------------------------------
// panic capture
// ---------------------------------------------------------------------------------------------

thread_local! {
    static LAST_PANIC: RefCell<Option<String>> = const { RefCell::new(None) };
}

/// Install a hook that records the panic message per thread instead of printing it.
pub fn quiet_panics() {
    std::panic::set_hook(Box::new(|info| {
        let msg = if let Some(s) = info.payload().downcast_ref::<&str>() {
            s.to_string()
        } else if let Some(s) = info.payload().downcast_ref::<String>() {
            s.clone()
        } else {
            "<non-string panic>".to_string()
        };
        let loc = info.location().map(|l| format!("{}:{}", l.file(), l.line())).unwrap_or_default();
        if std::env::var_os("MC_LOUD_PANICS").is_some() {
            eprintln!("panic: {msg} @ {loc}");
            if std::env::var("MC_LOUD_PANICS").map(|v| v == "2").unwrap_or(false) {
                eprintln!("{}", std::backtrace::Backtrace::force_capture());
            }
        }
        LAST_PANIC.with(|c| *c.borrow_mut() = Some(format!("{msg} @ {loc}")));
    }));
}

pub fn take_panic() -> String {
    LAST_PANIC.with(|c| c.borrow_mut().take()).unwrap_or_else(|| "<panic>".into())
}

/// Run `f`, returning Err(panic message) if it unwinds.
pub fn guarded<R>(f: impl FnOnce() -> R) -> Result<R, String> {
    match std::panic::catch_unwind(std::panic::AssertUnwindSafe(f)) {
        Ok(r) => Ok(r),
        Err(_) => Err(take_panic()),
    }
}

// ---------------------------------------------------------------------------------------------
// Tally
// ---------------------------------------------------------------------------------------------

#[derive(Clone, Debug)]
pub struct Found {
    pub count: u64,
    /// smallest case in enumeration order (so the artefact is the same on every run)
    pub order: (u64, u64),
    pub case: Value,
    pub detail: String,
}

#[derive(Default, Clone, Debug)]
pub struct Tally {
    pub evaluations: u64,
    pub states: u64,
    pub transitions: u64,
    pub traces: u64,
    pub distinct: HashSet<u64>,
    pub viol: BTreeMap<String, Found>,
    pub samples: Vec<Value>,
    pub counters: BTreeMap<String, u64>,
}

impl Tally {
    pub fn outcome(&mut self, h: u64) {
        self.distinct.insert(h);
    }
    pub fn count(&mut self, name: &str, n: u64) {
        *self.counters.entry(name.to_string()).or_insert(0) += n;
    }
    /// Record a violation under a stable signature. `case` is only evaluated when this is the
    /// smallest instance seen so far.
    pub fn violation(&mut self, sig: &str, order: (u64, u64), detail: impl FnOnce() -> String, case: impl FnOnce() -> Value) {
        match self.viol.get_mut(sig) {
            Some(f) => {
                f.count += 1;
                if order < f.order {
                    f.order = order;
                    f.case = case();
                    f.detail = detail();
                }
            }
            None => {
                self.viol.insert(sig.to_string(), Found { count: 1, order, case: case(), detail: detail() });
            }
        }
    }
    pub fn sample(&mut self, max: usize, v: impl FnOnce() -> Value) {
        if self.samples.len() < max {
            self.samples.push(v());
        }
    }
    pub fn merge(&mut self, o: Tally) {
        self.evaluations += o.evaluations;
        self.states += o.states;
        self.transitions += o.transitions;
        self.traces += o.traces;
        self.distinct.extend(o.distinct);
        for (k, f) in o.viol {
            match self.viol.get_mut(&k) {
                Some(g) => {
                    g.count += f.count;
                    if f.order < g.order {
                        g.order = f.order;
                        g.case = f.case;
                        g.detail = f.detail;
                    }
                }
                None => {
                    self.viol.insert(k, f);
                }
            }
        }
        for s in o.samples {
            if self.samples.len() < 6 {
                self.samples.push(s);
            }
        }
        for (k, v) in o.counters {
            *self.counters.entry(k).or_insert(0) += v;
        }
    }
}

// ---------------------------------------------------------------------------------------------
// parallel work splitting
// ---------------------------------------------------------------------------------------------

pub fn threads() -> usize {
    std::env::var("VERIF_THREADS").ok().and_then(|s| s.parse().ok()).unwrap_or_else(|| std::thread::available_parallelism().map(|n| n.get()).unwrap_or(4).min(16))
}

/// Run `f(item_index, item, tally)` for every item on all cores; item order handed to workers
/// is rotated by the seed (coverage is seed-independent, the whole slice is always processed).
pub fn par_items<I: Sync>(items: &[I], seed: u64, f: impl Fn(usize, &I, &mut Tally) + Sync) -> Tally {
    let n = items.len();
    let next = AtomicUsize::new(0);
    let rot = if n == 0 { 0 } else { (seed as usize) % n };
    let nt = threads().min(n.max(1));
    let mut total = Tally::default();
    let results: Vec<Tally> = std::thread::scope(|s| {
        let hs: Vec<_> = (0..nt)
            .map(|_| {
                s.spawn(|| {
                    let mut t = Tally::default();
                    loop {
                        let k = next.fetch_add(1, Ordering::Relaxed);
                        if k >= n {
                            break;
                        }
                        let idx = (k + rot) % n;
                        f(idx, &items[idx], &mut t);
                    }
                    t
                })
            })
            .collect();
        hs.into_iter().map(|h| h.join().expect("worker thread of the harness itself panicked")).collect()
    });
    for t in results {
        total.merge(t);
    }
    total
}

// ---------------------------------------------------------------------------------------------
// check context, known findings, evidence
// ---------------------------------------------------------------------------------------------

pub struct Ctx {
    pub property: String,
    pub thorough: bool,
    pub seed: u64,
    pub start: Instant,
}

impl Ctx {
    pub fn new(property: &str, thorough: bool) -> Ctx {
        let seed = std::env::var("VERIF_SEED").ok().and_then(|s| s.parse::<i64>().ok()).unwrap_or(0) as u64;
        Ctx { property: property.to_string(), thorough, seed, start: Instant::now() }
    }
    pub fn tier(&self) -> &'static str {
        if self.thorough { "thorough" } else { "quick" }
    }
}

#[derive(Clone, Debug)]
pub struct Known {
    pub property: String,
    pub sig: String,
    pub text: String,
}

pub fn load_known() -> Vec<Known> {
    let path = format!("{}/known_findings.txt", root());
    let Ok(s) = std::fs::read_to_string(&path) else { return vec![] };
    let mut out = vec![];
    for line in s.lines() {
        let line = line.trim();
        let Some(rest) = line.strip_prefix("known:") else { continue };
        let rest = rest.trim();
        let (head, text) = match rest.split_once(" :: ") {
            Some((h, t)) => (h, t.to_string()),
            None => (rest, String::new()),
        };
        let mut prop = String::new();
        let mut sig = String::new();
        for tok in head.split_whitespace() {
            if let Some(p) = tok.strip_prefix("property=") {
                prop = p.to_string();
            } else if let Some(s) = tok.strip_prefix("sig=") {
                sig = s.to_string();
            }
        }
        if !prop.is_empty() && !sig.is_empty() {
            out.push(Known { property: prop, sig, text });
        }
    }
    out
}

pub struct Meta {
    pub level: &'static str,
    pub rule: String,
    pub bound: String,
    pub exhaustive: bool,
    pub assumptions: Vec<String>,
    pub extra: Value,
}

/// Emit verdict lines, replay artefacts and the evidence file. Returns the process exit code.
pub fn finish(ctx: &Ctx, tally: &Tally, meta: Meta) -> i32 {
    let known = load_known();
    let mut unknown = 0u64;
    let mut known_seen = vec![];
    let mut violation_list = vec![];
    let _ = std::fs::create_dir_all(format!("{}/replays", root()));
    for (sig, f) in &tally.viol {
        if let Some(k) = known.iter().find(|k| k.property == ctx.property && &k.sig == sig) {
            println!("KNOWN-FINDING: property={} sig={} {} (instances this run: {})", ctx.property, sig, k.text, f.count);
            known_seen.push(json!({"sig": sig, "instances": f.count}));
            continue;
        }
        unknown += 1;
        let path = format!("{}/replays/{}-{:016x}.json", root(), ctx.property, h64(sig.as_bytes()));
        let doc = json!({
            "property": ctx.property,
            "signature": sig,
            "instances": f.count,
            "detail": f.detail,
            "case": f.case,
        });
        if let Err(e) = std::fs::write(&path, serde_json::to_string_pretty(&doc).unwrap()) {
            eprintln!("cannot write replay {path}: {e}");
        }
        println!("VIOLATION property={} replay={}", ctx.property, path);
        println!("  signature: {sig}  ({} instances)", f.count);
        println!("  detail: {}", f.detail.chars().take(600).collect::<String>());
        violation_list.push(json!({"sig": sig, "instances": f.count, "replay": path}));
    }
    let wall = ctx.start.elapsed().as_secs_f64();
    let mut samples = tally.samples.clone();
    if samples.is_empty() {
        samples.push(json!("(no sample recorded)"));
    }
    let mut coverage = json!({
        "evaluations": tally.evaluations,
        "distinct_nontrivial": tally.distinct.len(),
        "rule": meta.rule,
        "samples": samples,
        "bound": meta.bound,
        "exhaustive": meta.exhaustive,
        "known_findings_observed": known_seen,
        "violations_reported": violation_list,
        "counters": tally.counters,
        "threads": threads(),
    });
    if meta.level == "model_checking" {
        coverage["states"] = json!(tally.states);
        coverage["transitions"] = json!(tally.transitions);
        coverage["traces_validated_against_impl"] = json!(tally.traces);
    }
    if let Value::Object(m) = &meta.extra {
        for (k, v) in m {
            coverage[k] = v.clone();
        }
    }
    let ev = json!({
        "property_id": ctx.property,
        "tier": ctx.tier(),
        "seed": ctx.seed as i64,
        "level": meta.level,
        "coverage": coverage,
        "assumptions": meta.assumptions,
        "wall_s": (wall * 1000.0).round() / 1000.0,
        "violations": unknown,
    });
    let _ = std::fs::create_dir_all(format!("{}/evidence", root()));
    let path = format!("{}/evidence/{}.json", root(), ctx.property);
    std::fs::write(&path, serde_json::to_string_pretty(&ev).unwrap()).expect("write evidence");
    println!(
        "{} {}: evaluations={} states={} transitions={} traces={} distinct_outcomes={} violations={} known={} wall={:.1}s",
        ctx.property,
        ctx.tier(),
        tally.evaluations,
        tally.states,
        tally.transitions,
        tally.traces,
        tally.distinct.len(),
        unknown,
        tally.viol.len() as u64 - unknown,
        wall
    );
    if unknown > 0 { 1 } else { 0 }
}
