//! History spaces for the progressive muxer (accepted-only histories used by the file-level
//! properties C01/C02/C03/C08/C15/C18). Pure generation, no muxide.

use crate::frames::{audio_frame, video_frame, ACodec, ACODECS, VCODECS};
use crate::model::{AudioCfg, Bytes, Cfg, Meta, Op, T};
use crate::refmodel::tick_is_robust;

/// The configuration space Γ (or a pairwise-style reduction of it for the quick tier).
pub fn configs(thorough: bool) -> Vec<Cfg> {
    let metas: Vec<Option<Meta>> = vec![
        None,
        Some(Meta { title: Some("T".into()), time: None, lang: None }),
        Some(Meta { title: None, time: Some(1_700_000_000), lang: None }),
        Some(Meta { title: Some("title é".into()), time: Some(86_400 * 365), lang: Some("eng".into()) }),
        Some(Meta { title: None, time: None, lang: Some("fra".into()) }),
    ];
    let mut out = vec![];
    if thorough {
        for &c in &VCODECS {
            let mut audios: Vec<Option<ACodec>> = vec![None];
            audios.extend(ACODECS.iter().map(|&a| Some(a)));
            for a in audios {
                for fs in [true, false] {
                    for m in &metas {
                        let mut cfg = Cfg::basic(c, a, fs);
                        cfg.meta = m.clone();
                        out.push(cfg);
                    }
                }
            }
        }
    } else {
        // every codec, every audio kind, both layouts, every metadata shape: each value occurs,
        // and every (codec, layout), (audio kind, layout), (codec, audio class) pair occurs
        let audio_cycle: [Option<ACodec>; 8] = [None, Some(ACodec::AacLc), Some(ACodec::Opus), Some(ACodec::AacMain), Some(ACodec::AacSsr), Some(ACodec::AacLtp), Some(ACodec::AacHe), Some(ACodec::AacHev2)];
        let mut k = 0usize;
        for &c in &VCODECS {
            for fs in [true, false] {
                for a in [None, Some(ACodec::AacLc), Some(ACodec::Opus)] {
                    let mut cfg = Cfg::basic(c, a, fs);
                    cfg.meta = metas[k % metas.len()].clone();
                    out.push(cfg);
                    k += 1;
                }
            }
        }
        for (i, a) in audio_cycle.iter().enumerate().skip(3) {
            let mut cfg = Cfg::basic(VCODECS[i % 4], *a, i % 2 == 0);
            cfg.meta = metas[i % metas.len()].clone();
            out.push(cfg);
        }
    }
    out
}

/// All submission orders of `nv` video and `na` audio writes that the contract admits
/// (the first write is video whenever there is any audio). true = video.
pub fn orders(nv: usize, na: usize) -> Vec<Vec<bool>> {
    fn rec(v: usize, a: usize, cur: &mut Vec<bool>, out: &mut Vec<Vec<bool>>) {
        if v == 0 && a == 0 {
            out.push(cur.clone());
            return;
        }
        if v > 0 {
            cur.push(true);
            rec(v - 1, a, cur, out);
            cur.pop();
        }
        if a > 0 && !cur.is_empty() {
            cur.push(false);
            rec(v, a - 1, cur, out);
            cur.pop();
        }
    }
    let mut out = vec![];
    if na > 0 && nv == 0 {
        return out;
    }
    rec(nv, na, &mut vec![], &mut out);
    out
}

pub fn permutations(n: usize) -> Vec<Vec<usize>> {
    fn rec(cur: &mut Vec<usize>, used: &mut Vec<bool>, n: usize, out: &mut Vec<Vec<usize>>) {
        if cur.len() == n {
            out.push(cur.clone());
            return;
        }
        for i in 0..n {
            if !used[i] {
                used[i] = true;
                cur.push(i);
                rec(cur, used, n, out);
                cur.pop();
                used[i] = false;
            }
        }
    }
    let mut out = vec![];
    rec(&mut vec![], &mut vec![false; n], n, &mut out);
    out
}

#[derive(Clone, Copy, Debug, PartialEq, Eq)]
pub enum PtsMode {
    /// write_video(pts)
    Plain,
    /// write_video_with_dts(pts = dts)
    DtsEqual,
    /// write_video_with_dts with pts_i = dts_{perm[i]}
    Perm(usize),
    /// write_video_with_dts with every frame decoded 0.1 s after it is presented (negative
    /// composition offsets; audio may then lie between the first frame's two times)
    Late,
}

pub const DTS_PATTERNS: usize = 3;

pub fn video_dts(pattern: usize, i: usize) -> f64 {
    match pattern {
        0 => i as f64 / 30.0,
        1 => i as f64 * 1001.0 / 30000.0,
        _ => [0.0, 0.04, 0.05, 0.2, 0.2001, 0.75][i],
    }
}

/// sizes by pattern: 0 = small distinct, 1 = all equal, 2.. = one 300-byte frame at position p-2
pub fn size_of(pattern: usize, i: usize) -> usize {
    match pattern {
        0 => 3 + 2 * i,
        1 => 6,
        p => {
            if i == p - 2 { 300 } else { 4 + i }
        }
    }
}

#[derive(Clone, Debug)]
pub struct HistSpec {
    pub order: Vec<bool>,
    pub dts_pattern: usize,
    pub pts_mode: PtsMode,
    pub perm: Vec<usize>,
    /// bit i set => video frame i+1 is a keyframe (frame 0 always is)
    pub keymask: u32,
    pub vsize_pattern: usize,
    pub asize_pattern: usize,
    /// audio starts this many seconds after the first video presentation time
    pub audio_lead: f64,
}

/// Concrete, contract-abiding operation list for a spec.
pub fn build_ops(cfg: &Cfg, s: &HistSpec) -> Vec<Op> {
    let nv = s.order.iter().filter(|&&b| b).count();
    let dts: Vec<f64> = (0..nv).map(|i| video_dts(s.dts_pattern, i)).collect();
    let pts: Vec<f64> = match s.pts_mode {
        PtsMode::Perm(_) => (0..nv).map(|i| dts[s.perm[i]]).collect(),
        _ => dts.clone(),
    };
    let dts: Vec<f64> = if s.pts_mode == PtsMode::Late { dts.iter().map(|d| d + 0.1).collect() } else { dts };
    let first_vpts = pts.first().copied().unwrap_or(0.0);
    let acodec = cfg.audio.as_ref().map(|a| a.codec);
    let mut ops = vec![];
    let (mut vi, mut ai) = (0usize, 0usize);
    for &is_v in &s.order {
        if is_v {
            let key = vi == 0 || (s.keymask >> (vi - 1)) & 1 == 1;
            // the submitted flag is what the file must carry; under size pattern 1 the payload of
            // every later frame is of the other kind (a flagged frame without an IDR / key-frame
            // header, an unflagged IDR)
            let payload_key = if vi > 0 && s.vsize_pattern == 1 { !key } else { key };
            let (data, _) = video_frame(cfg.codec, payload_key, vi == 0, vi as u32 + 1, size_of(s.vsize_pattern, vi));
            let data = Bytes::new(data);
            debug_assert!(tick_is_robust(pts[vi]) && tick_is_robust(dts[vi]));
            ops.push(match s.pts_mode {
                PtsMode::Plain => Op::WV { pts: T(pts[vi]), data, key },
                _ => Op::WVD { pts: T(pts[vi]), dts: T(dts[vi]), data, key },
            });
            vi += 1;
        } else {
            let t = first_vpts + s.audio_lead + ai as f64 * 1024.0 / 48000.0;
            let ac = acodec.expect("audio op without audio config");
            // under the default size pattern the second Opus packet is the shortest legal one (a
            // lone TOC byte or TOC + count byte); ADTS has no counterpart (a header-only frame is invalid)
            let alen = if !ac.is_aac() && s.asize_pattern == 0 && ai == 1 { 0 } else { size_of(s.asize_pattern, ai) + 1 };
            let (data, _) = audio_frame(ac, 0x40 + ai as u32, alen);
            ops.push(Op::WA { pts: T(t), data: Bytes::new(data) });
            ai += 1;
        }
    }
    ops
}

/// The C01 history set for one configuration, as specs. `nv_max`/`na_max` bound the frame counts.
pub fn c01_specs(cfg: &Cfg, nv_max: usize, na_max: usize, thorough: bool) -> Vec<HistSpec> {
    let mut out = vec![];
    let na_max = if cfg.audio.is_some() { na_max } else { 0 };
    for nv in 0..=nv_max {
        for na in 0..=na_max {
            for order in orders(nv, na) {
                let perms = permutations(nv);
                let mut modes: Vec<(PtsMode, Vec<usize>)> = vec![(PtsMode::Plain, vec![]), (PtsMode::DtsEqual, vec![])];
                if nv > 0 {
                    modes.push((PtsMode::Late, vec![]));
                }
                for (k, p) in perms.iter().enumerate() {
                    if p.iter().enumerate().any(|(i, &x)| i != x) {
                        modes.push((PtsMode::Perm(k), p.clone()));
                    }
                }
                let vsizes: Vec<usize> = if thorough { (0..2 + nv.max(1)).collect() } else { vec![0, 1, 2 + nv / 2] };
                let asizes: Vec<usize> = if na == 0 { vec![0] } else if thorough { vec![0, 1, 2] } else { vec![0, 1] };
                for dp in 0..DTS_PATTERNS {
                    for (mode, perm) in &modes {
                        for keymask in 0..(1u32 << nv.saturating_sub(1)) {
                            for &vs in &vsizes {
                                for &as_ in &asizes {
                                    out.push(HistSpec {
                                        order: order.clone(),
                                        dts_pattern: dp,
                                        pts_mode: *mode,
                                        perm: perm.clone(),
                                        keymask,
                                        vsize_pattern: vs,
                                        asize_pattern: as_,
                                        audio_lead: 0.0,
                                    });
                                }
                            }
                        }
                    }
                }
            }
        }
    }
    out
}

pub fn audio_cfg(codec: ACodec, rate: u32, channels: u16) -> AudioCfg {
    AudioCfg { codec, rate, channels }
}
