//! C09 - audio/video synchronisation of the input is preserved.

use crate::e1::case_json;
use crate::run::run_finished;
use oracle::fileck::{self, expect_from};
use oracle::frames::{audio_frame, video_frame, ACodec, VCodec};
use oracle::model::{brief_ops, Bytes, Cfg, Op, T};
use oracle::reader::parse_movie;
use oracle::refmodel::tick_is_robust;
use oracle::report::{finish, par_items, Ctx, Fnv, Meta, Tally};
use serde_json::{json, Value};

fn judge(cfg: &Cfg, ops: &[Op], order: (u64, u64), t: &mut Tally) {
    let ex = run_finished(cfg, ops);
    t.evaluations += 1;
    t.states += 1;
    t.transitions += ex.results.len() as u64;
    if ex.panicked().is_some() || !ex.results.last().map(|r| r.is_ok()).unwrap_or(false) {
        t.count("histories_without_a_file", 1);
        return;
    }
    if !ex.results.iter().all(|r| r.is_ok()) {
        // rejected calls stay in the history: the oracle is applied to the accepted samples
        t.count("histories_with_rejected_calls", 1);
    }
    let e = expect_from(cfg, ops, &ex.results);
    let m = parse_movie(&ex.bytes, "prog");
    t.traces += 1;
    let mut h = Fnv::new();
    h.bytes(&ex.bytes);
    t.outcome(h.0);
    t.sample(3, || json!({"cfg": cfg.short(), "history": brief_ops(ops)}));
    for (sig, d) in fileck::c09(&m, &e) {
        let full = if sig.starts_with("C09/") { sig } else { format!("C09/{sig}") };
        t.violation(&full, order, || format!("{} | {} | {d}", cfg.short(), brief_ops(ops)), || case_json(cfg, ops));
    }
}

struct Item {
    cfg: Cfg,
    v0: f64,
    cts0: f64,
}

pub fn check(ctx: &Ctx) -> i32 {
    let mut items = vec![];
    for codec in oracle::frames::VCODECS {
        for ac in [ACodec::AacLc, ACodec::Opus] {
            for fast in [true, false] {
                for v0 in [0.0, 1.0 / 30.0, 1.0, 10.0] {
                    // (-1.0 marks the third shape: first frame presented at its decode time, every
                    // later frame presented one frame before it is decoded - negative offsets)
                    for cts0 in [0.0, 2.0 / 30.0, -1.0] {
                        if !ctx.thorough && codec != VCodec::H264 && codec != VCodec::Av1 && v0 > 0.5 {
                            continue;
                        }
                        items.push(Item { cfg: Cfg::basic(codec, Some(ac), fast), v0, cts0 });
                    }
                }
            }
        }
    }
    let leads = [0.0, 1.0 / 90000.0, 1024.0 / 48000.0, 0.25, 3.0];
    let tally = par_items(&items, ctx.seed, |idx, it, t| {
        let mut k = 0u64;
        for &lead in &leads {
            for nv in 2..=3usize {
                for na in [2usize, 3, 8, 12] {
                    for asteps in [vec![1024.0 / 48000.0], vec![1024.0 / 44100.0], vec![0.02], vec![0.0], vec![0.0, 1024.0 / 48000.0], vec![0.02, 0.0], vec![0.5, 0.02], vec![0.003, 0.5]] {
                        // longer audio runs only with the two real frame spacings (44.1 kHz
                        // spacing is 2089.79.. ticks: per-step rounding would drift)
                        if na > 3 && (asteps.len() > 1 || asteps[0] == 0.0 || asteps[0] == 0.02) {
                            continue;
                        }
                        // video in decode order at 30 fps; first frame presented cts0 later
                        let mut ops = vec![];
                        let first_pts = it.v0 + it.cts0.max(0.0);
                        for i in 0..nv {
                            let dts = if it.cts0 < 0.0 && i > 0 { it.v0 + (i + 1) as f64 / 30.0 } else { it.v0 + i as f64 / 30.0 };
                            let pts = if it.cts0 < 0.0 {
                                it.v0 + i as f64 / 30.0
                            } else if it.cts0 > 0.0 {
                                // I P B: the first frame is presented two frames late, later ones in between
                                if i == 0 { first_pts } else { dts + 3.0 / 30.0 }
                            } else {
                                dts
                            };
                            let (d, _) = video_frame(it.cfg.codec, i == 0, i == 0, i as u32 + 1, 5);
                            ops.push(if it.cts0 != 0.0 { Op::WVD { pts: T(pts), dts: T(dts), data: Bytes::new(d), key: i == 0 } } else { Op::WV { pts: T(pts), data: Bytes::new(d), key: i == 0 } });
                        }
                        let mut ok = true;
                        let mut with_reject = vec![];
                        let mut at_acc = first_pts + lead;
                        for j in 0..na {
                            if j > 0 {
                                at_acc += asteps[(j - 1) % asteps.len()];
                            }
                            let at = at_acc;
                            ok &= tick_is_robust(at);
                            ops.push(Op::WA { pts: T(at), data: Bytes::new(audio_frame(it.cfg.audio.as_ref().unwrap().codec, j as u32, 6).0) });
                            if j == 0 {
                                // variant: after the first audio frame a frame with a later
                                // timestamp and an invalid payload is submitted and rejected
                                with_reject = ops.clone();
                                // its timestamp lies between this frame and the next one
                                with_reject.push(Op::WA { pts: T(at + asteps[0] / 4.0), data: Bytes::new(vec![0x03]) });
                            } else {
                                with_reject.push(ops.last().unwrap().clone());
                            }
                        }
                        k += 1;
                        if ok {
                            judge(&it.cfg, &ops, (idx as u64, 2 * k), t);
                            judge(&it.cfg, &with_reject, (idx as u64, 2 * k + 1), t);
                        } else {
                            t.count("skipped_tie_sensitive_timestamps", 1);
                        }
                    }
                }
            }
        }
    });
    // tick-level jitter: every audio step sequence of 2..=JMAX steps over {1, 2, 3, 5} x 600 ticks
    // (table builders that summarise the deltas move interior samples)
    let jmax = if ctx.thorough { 7 } else { 5 };
    let jsteps = [1u64, 2, 3, 5];
    let mut seqs: Vec<Vec<usize>> = vec![vec![]];
    let mut frontier: Vec<Vec<usize>> = vec![vec![]];
    for _ in 0..jmax {
        frontier = frontier.iter().flat_map(|s| (0..jsteps.len()).map(move |a| { let mut q = s.clone(); q.push(a); q })).collect();
        seqs.extend(frontier.iter().cloned());
    }
    let seqs: Vec<Vec<usize>> = seqs.into_iter().filter(|s| s.len() >= 2).collect();
    let n_jitter = seqs.len();
    let chunks: Vec<&[Vec<usize>]> = seqs.chunks(64).collect();
    let tj = par_items(&chunks, ctx.seed, |idx, ch, t| {
        for (k, seq) in ch.iter().enumerate() {
            for ac in [ACodec::AacLc, ACodec::Opus] {
                let cfg = Cfg::basic(VCodec::H264, Some(ac), (idx + k) % 2 == 0);
                let start = 180_000u64;
                let at = |ticks: u64| ticks as f64 / 90000.0;
                let mut ops = vec![];
                for i in 0..2u32 {
                    ops.push(Op::WV { pts: T(at(start + 3000 * i as u64)), data: Bytes::new(video_frame(VCodec::H264, i == 0, i == 0, i + 1, 5).0), key: i == 0 });
                }
                let mut tk = start;
                for j in 0..=seq.len() {
                    if j > 0 {
                        tk += jsteps[seq[j - 1]] * 600;
                    }
                    ops.push(Op::WA { pts: T(at(tk)), data: Bytes::new(audio_frame(ac, j as u32, 6).0) });
                }
                judge(&cfg, &ops, (50_000 + idx as u64, k as u64), t);
            }
        }
    });
    // timestamps off the audio sample grid at every standard sample rate (capture clocks do not
    // count in samples): 5 frames at the codec's cadence, each displaced by 0-30 microseconds
    // (all 13 standard rates: the timeline does not depend on the 16.16 rate field, whose
    // inability to hold 88200 / 96000 Hz is C07's and C16's recorded finding)
    let rates: Vec<u32> = oracle::frames::AAC_RATES.to_vec();
    let tr = par_items(&rates, ctx.seed, |idx, &rate, t| {
        let mut k = 0u64;
        for fast in [true, false] {
            for v0 in [0.0, 2.5] {
                for jit in [[0.0, 30e-6, 20e-6, 30e-6, 30e-6], [0.0, 0.0, 11e-6, 0.0, 29e-6], [0.0; 5]] {
                    let cfg = Cfg { audio: Some(oracle::model::AudioCfg { codec: ACodec::AacLc, rate, channels: 1 }), ..Cfg::basic(VCodec::H264, Some(ACodec::AacLc), fast) };
                    let mut ops = vec![];
                    for i in 0..2u32 {
                        ops.push(Op::WV { pts: T(v0 + i as f64 / 30.0), data: Bytes::new(video_frame(VCodec::H264, i == 0, i == 0, i + 1, 5).0), key: i == 0 });
                    }
                    let mut ok = true;
                    for (j, dj) in jit.iter().enumerate() {
                        let at = v0 + j as f64 * 1024.0 / rate as f64 + dj;
                        ok &= tick_is_robust(at);
                        ops.push(Op::WA { pts: T(at), data: Bytes::new(audio_frame(ACodec::AacLc, j as u32, 6).0) });
                    }
                    k += 1;
                    if ok {
                        judge(&cfg, &ops, (60_000 + idx as u64, k), t);
                    } else {
                        t.count("skipped_tie_sensitive_timestamps", 1);
                    }
                }
            }
        }
    });
    // the automatic-timestamp entry points: encode_video at a fixed frame duration with
    // encode_audio frames of varying length (Opus 10/20/40/60 ms, AAC 1024/2048), every
    // sequence of 2..=5 audio frames over the length alphabet
    let lens_opus = [480u32, 960, 1920, 2880];
    let lens_aac = [1024u32, 2048];
    let mut conv: Vec<(ACodec, Vec<u32>)> = vec![];
    // (every AAC profile: the automatic clock runs on the configured rate whatever the profile)
    for (ac, alpha) in [(ACodec::Opus, &lens_opus[..]), (ACodec::AacLc, &lens_aac[..]), (ACodec::AacHe, &lens_aac[..]), (ACodec::AacHev2, &lens_aac[..]), (ACodec::AacMain, &lens_aac[..])] {
        let mut frontier: Vec<Vec<u32>> = vec![vec![]];
        for _ in 0..5 {
            frontier = frontier.iter().flat_map(|s| alpha.iter().map(move |&a| { let mut q = s.clone(); q.push(a); q })).collect();
            conv.extend(frontier.iter().filter(|s| s.len() >= 2).map(|s| (ac, s.clone())));
        }
    }
    let n_conv = conv.len();
    let chunks: Vec<&[(ACodec, Vec<u32>)]> = conv.chunks(32).collect();
    let tc = par_items(&chunks, ctx.seed, |idx, ch, t| {
        for (k, (ac, lens)) in ch.iter().enumerate() {
            let cfg = Cfg::basic(VCodec::H264, Some(*ac), (idx + k) % 2 == 0);
            let mut ops = vec![];
            for (j, &n) in lens.iter().enumerate() {
                if j < 3 {
                    ops.push(Op::EV { data: Bytes::new(video_frame(VCodec::H264, j == 0, j == 0, j as u32 + 1, 5).0), dur_ms: 40 });
                }
                ops.push(Op::EA { data: Bytes::new(audio_frame(*ac, j as u32, 6).0), samples: n });
            }
            judge(&cfg, &ops, (70_000 + idx as u64, k as u64), t);
            // the same history with a refused encode_audio call (unusable payload) after every
            // accepted one: a refused call takes no time on the automatic clock
            let mut with_rejects = vec![];
            for o in &ops {
                with_rejects.push(o.clone());
                if let Op::EA { samples, .. } = o {
                    with_rejects.push(Op::EA { data: Bytes::new(if ac.is_aac() { vec![0x03] } else { vec![] }), samples: *samples });
                }
            }
            judge(&cfg, &with_rejects, (75_000 + idx as u64, k as u64), t);
            // the same history with an explicit write halfway to the next automatic timestamp after
            // every automatic call but the last of its track: the automatic clocks count the
            // encode_* calls only, an explicit timestamp in between neither advances nor rewinds them
            let rate = cfg.audio.as_ref().map(|a| a.rate as f64).unwrap_or(48000.0);
            let (mut ca, mut cv) = (0.0f64, 0.0f64);
            let n_ea = ops.iter().filter(|o| matches!(o, Op::EA { .. })).count();
            let n_ev = ops.iter().filter(|o| matches!(o, Op::EV { .. })).count();
            let (mut ia, mut iv) = (0usize, 0usize);
            let mut mixed = vec![];
            for o in &ops {
                mixed.push(o.clone());
                match o {
                    Op::EA { samples, .. } => {
                        ia += 1;
                        let mid = ca + *samples as f64 / rate / 2.0 + 1.0e-5;
                        ca += *samples as f64 / rate;
                        if ia < n_ea && oracle::refmodel::tick_is_robust(mid) {
                            mixed.push(Op::WA { pts: T(mid), data: Bytes::new(audio_frame(*ac, 40 + ia as u32, 7).0) });
                        }
                    }
                    Op::EV { dur_ms, .. } => {
                        iv += 1;
                        let mid = cv + *dur_ms as f64 / 2000.0 + 1.0e-5;
                        cv += *dur_ms as f64 / 1000.0;
                        if iv < n_ev && oracle::refmodel::tick_is_robust(mid) {
                            // (through either explicit entry point, alternating from case to case)
                            let data = Bytes::new(video_frame(VCodec::H264, false, false, 40 + iv as u32, 6).0);
                            mixed.push(if (idx + k) % 2 == 0 { Op::WV { pts: T(mid), data, key: false } } else { Op::WVD { pts: T(mid), dts: T(mid), data, key: false } });
                        }
                    }
                    _ => {}
                }
            }
            judge(&cfg, &mixed, (78_000 + idx as u64, k as u64), t);
        }
    });
    // far from zero: capture clocks that have been running for hours or years. The absolute
    // time is not stored anywhere, only differences are - around 2^32 ticks (13 h 15 min) and
    // beyond, every narrowing of an absolute timestamp shows as a collapsed or shifted track
    let bases = [0.0, 47_721.0, 47_721.5, 47_722.0, 50_000.0, 95_443.5, 1.0e6, 3.0e8, 1.0e9];
    let tf = par_items(&bases, ctx.seed, |idx, &base, t| {
        let mut k = 0u64;
        for codec in [VCodec::H264, VCodec::Vp9] {
            for ac in [ACodec::AacLc, ACodec::Opus] {
                for fast in [true, false] {
                    for lead in [0.0, 0.25] {
                        // (the last two: an audio track of more than 2^31 ticks - 6 h 37 min - next to a
                        // short video track: header fields change meaning past the signed 32-bit range)
                        for asteps in [[1024.0 / 48000.0, 1024.0 / 48000.0], [0.5, 0.02], [0.25, 0.5], [8000.0, 8000.0], [7900.0, 7900.0]] {
                            for reordered in [false, true] {
                                let cfg = Cfg::basic(codec, Some(ac), fast);
                                let mut ops = vec![];
                                let mut ok = true;
                                for i in 0..3u32 {
                                    let dts = base + i as f64 / 30.0;
                                    ok &= tick_is_robust(dts);
                                    let d = Bytes::new(video_frame(codec, i == 0, i == 0, i + 1, 5).0);
                                    if reordered {
                                        let pts = if i == 0 { dts } else { dts + 3.0 / 30.0 };
                                        ok &= tick_is_robust(pts);
                                        ops.push(Op::WVD { pts: T(pts), dts: T(dts), data: d, key: i == 0 });
                                    } else {
                                        ops.push(Op::WV { pts: T(dts), data: d, key: i == 0 });
                                    }
                                }
                                let mut at = base + lead;
                                for j in 0..3usize {
                                    if j > 0 {
                                        at += asteps[j - 1];
                                    }
                                    ok &= tick_is_robust(at);
                                    ops.push(Op::WA { pts: T(at), data: Bytes::new(audio_frame(ac, j as u32, 6).0) });
                                }
                                k += 1;
                                if ok {
                                    judge(&cfg, &ops, (80_000 + idx as u64, k), t);
                                } else {
                                    t.count("skipped_tie_sensitive_timestamps", 1);
                                }
                            }
                        }
                    }
                }
            }
        }
    });
    // long runs on an exact cadence: 66 000 audio frames 1920 ticks apart (and 66 000 video
    // frames 3000 ticks apart under a short audio track): counters of table builders that
    // summarise equal deltas have their limits beyond 2^16
    let longs = [(true, true), (true, false), (false, true), (false, false)];
    let tl = par_items(&longs, ctx.seed, |idx, &(long_audio, fast), t| {
        let cfg = Cfg::basic(VCodec::H264, Some(ACodec::AacLc), fast);
        let n = 66_000usize;
        let (nv, na) = if long_audio { (3, n) } else { (n, 40) };
        let mut ops = Vec::with_capacity(nv + na);
        let vk = Bytes::new(video_frame(VCodec::H264, true, true, 1, 3).0);
        let vd = Bytes::new(video_frame(VCodec::H264, false, false, 2, 2).0);
        let au = Bytes::new(audio_frame(ACodec::AacLc, 3, 3).0);
        let base = 0.5;
        // submission in timestamp order (video first on ties)
        let (mut i, mut j) = (0usize, 0usize);
        while i < nv || j < na {
            let vt = base + i as f64 * 3000.0 / 90000.0;
            let at = base + j as f64 * 1920.0 / 90000.0;
            if j >= na || (i < nv && vt <= at) {
                ops.push(Op::WV { pts: T(vt), data: if i == 0 { vk.clone() } else { vd.clone() }, key: i == 0 });
                i += 1;
            } else {
                ops.push(Op::WA { pts: T(at), data: au.clone() });
                j += 1;
            }
        }
        // a few frames on another cadence at the end, so that a shortened run shows as a shift
        let tail = base + (na.max(nv * 3000 / 1920 + 1)) as f64 * 1920.0 / 90000.0;
        for q in 0..4usize {
            ops.push(Op::WA { pts: T(tail + q as f64 * 2000.0 / 90000.0), data: au.clone() });
        }
        judge(&cfg, &ops, (90_000 + idx as u64, 0), t);
    });
    let mut tally = tally;
    tally.merge(tl);
    tally.merge(tj);
    tally.merge(tr);
    tally.merge(tc);
    tally.merge(tf);
    finish(
        ctx,
        &tally,
        Meta {
            level: "model_checking",
            rule: format!("every A/V history over: first video decode time {{0, 1/30, 1, 10 s}} x video shape {{no offsets, first frame +2 frames, later frames -1 frame}} x audio start minus first video presentation {{0, 1 tick, 1024/48000, 0.25, 3 s}} x 2-3 video frames x 2-3 audio frames x audio step pattern {{1024/48000, 1024/44100, 0.02, 0, (0, 1024/48000), (0.02, 0), (0.5, 0.02), (0.003, 0.5): pauses and overlaps relative to the packets' coded durations}}, plus runs of 8 and 12 audio frames at the 48 kHz and 44.1 kHz AAC spacings, plus every audio step sequence of 2..{jmax} steps over {{600, 1200, 1800, 3000}} ticks ({n_jitter} sequences x AAC/Opus), plus every standard AAC sample rate (7350 .. 96000 Hz) x 3 sub-sample displacement patterns (0-30 microseconds) x 2 start times x both layouts, plus {n_conv} encode_video/encode_audio histories (each also with a refused encode_audio call after every accepted one, and with an explicit write_video / write_audio halfway to the next automatic timestamp after every automatic call) (every sequence of 2..5 audio frame lengths over Opus {{10, 20, 40, 60 ms}} and AAC {{1024, 2048}}), plus 3 video + 3 audio frames starting 47721 s .. 1e9 s from zero (both sides of 2^32 and 2^33 ticks, audio runs that straddle 2^32 ticks) x plain/reordered video x 5 audio step patterns (two of them 7900 s and 8000 s apart: audio tracks around 2^31 ticks long) x 2 leads x H.264/VP9, also from 0, plus four long histories (66 000 audio frames 1920 ticks apart, 66 000 video frames 3000 ticks apart, both layouts), x {{AAC, Opus}} x both layouts x codecs; executed on the real muxer; per-track presentation timelines rebuilt from stts/ctts (+ edit list if present, empty edits and media_time honoured) and every audio sample's presentation time relative to the first video frame compared with the submitted difference (tolerance 1 tick). Distinct by output bytes."),
            bound: "2-3 video frames, 2-3 audio frames (8 and 12 for the two constant spacings)".into(),
            exhaustive: true,
            assumptions: vec!["the known finding C09/no-start-offset is matched only when neither track has an edit list and every audio sample is off by exactly the lost start offset; any other deviation is reported as a violation".into()],
            extra: json!({}),
        },
    )
}

pub fn replay(case: &Value) -> i32 {
    let cfg: Cfg = serde_json::from_value(case["cfg"].clone()).unwrap();
    let ops: Vec<Op> = serde_json::from_value(case["ops"].clone()).unwrap();
    let mut t = Tally::default();
    judge(&cfg, &ops, (0, 0), &mut t);
    println!("history: {}", brief_ops(&ops));
    if t.viol.is_empty() {
        println!("replay: property C09 holds for this case");
        0
    } else {
        for (s, f) in &t.viol {
            println!("replay: VIOLATION {s}: {}", f.detail);
        }
        1
    }
}
