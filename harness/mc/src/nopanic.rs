//! C12 - no public entry point panics, overflows, indexes out of bounds or hangs.
//! Built with overflow checks and debug assertions on; every call is wrapped in catch_unwind.

use crate::codeccfg::av1_headers;
use crate::faults::{FaultSink, FaultState, Script};
use crate::run::{acodec, vcodec};
use muxide::api::{AudioCodec, Metadata, Muxer, MuxerBuilder, MuxerConfig, MuxerError, VideoCodec};
use muxide::codec::{av1, common, h264, h265, opus, vp9};
use muxide::fragmented::{FragmentConfig, FragmentedMuxer};
use muxide::validation;
use oracle::frames::{self, ACodec, AdtsHdr, VCodec};
use oracle::model::hex;
use oracle::report::{finish, guarded, par_items, Ctx, Meta, Tally};
use serde_json::{json, Value};
use std::cell::RefCell;
use std::rc::Rc;

/// stable class of a panic message: digits blanked except in INV ids
pub fn panic_class(msg: &str) -> String {
    let head = msg.split(" @ ").next().unwrap_or(msg);
    // quoted fragments of the input (`...` and '...') would make the class depend on the data
    let mut cleaned = String::new();
    let mut quote: Option<char> = None;
    for c in head.chars() {
        match quote {
            Some(q) if c == q => {
                quote = None;
                cleaned.push('*');
            }
            Some(_) => {}
            None if c == '`' || c == '\'' => quote = Some(c),
            None => cleaned.push(c),
        }
    }
    let head = cleaned.as_str();
    let mut out = String::new();
    let mut prev_inv = false;
    let chars: Vec<char> = head.chars().collect();
    let mut i = 0;
    while i < chars.len() && out.len() < 90 {
        let c = chars[i];
        if c.is_ascii_digit() {
            if prev_inv {
                out.push(c);
            } else if !out.ends_with('#') {
                out.push('#');
            }
        } else {
            prev_inv = c == '-' && out.ends_with("INV") || (prev_inv && false);
            out.push(if c == ' ' { '_' } else { c });
        }
        i += 1;
    }
    out
}

fn report(t: &mut Tally, entry: &str, msg: &str, order: (u64, u64), case: impl FnOnce() -> Value) {
    let sig = format!("C12/{entry}/{}", panic_class(msg));
    t.violation(&sig, order, || format!("{entry}: {msg}"), case);
}

// ---------------------------------------------------------------------------------------------
// stateless entry points
// ---------------------------------------------------------------------------------------------

/// entry point name and a probe returning a small outcome class (None/Some, false/true, Err/Ok...)
type Poke = (&'static str, fn(&[u8]) -> u32);

fn stateless_fns() -> Vec<Poke> {
    vec![
        ("common::find_start_code", |d| {
            let mut c = 0;
            for from in [0usize, 1, 2, d.len(), d.len() + 1, usize::MAX] {
                c = c * 3 + common::find_start_code(d, from).map(|x| x.1 as u32 - 2).unwrap_or(0);
            }
            c
        }),
        ("common::AnnexBNalIter", |d| common::AnnexBNalIter::new(d).count().min(4) as u32),
        ("h264::extract_avc_config", |d| match h264::extract_avc_config(d) {
            Some(c) => 1 + ((c.profile_idc() as u32 + c.profile_compatibility() as u32 + c.level_idc() as u32) & 1),
            None => 0,
        }),
        ("h264::annexb_to_avcc", |d| (h264::annexb_to_avcc(d).len() > d.len()) as u32),
        ("h264::is_h264_keyframe", |d| h264::is_h264_keyframe(d) as u32),
        ("h265::extract_hevc_config", |d| match h265::extract_hevc_config(d) {
            Some(c) => 1 + ((c.general_profile_space() as u32 + c.general_tier_flag() as u32 + c.general_profile_idc() as u32 + c.general_level_idc() as u32) & 1),
            None => 0,
        }),
        ("h265::hevc_annexb_to_hvcc", |d| (h265::hevc_annexb_to_hvcc(d).len() > d.len()) as u32),
        ("h265::is_hevc_keyframe", |d| h265::is_hevc_keyframe(d) as u32),
        ("h265::hevc_nal_type", |d| h265::is_hevc_keyframe_nal_type(h265::hevc_nal_type(d)) as u32),
        ("av1::header-helpers", |d| {
            let mut c = 0;
            if let Some(&b) = d.first() {
                c = (av1::obu_type(b) as u32 & 1) + 2 * av1::obu_has_extension(b) as u32 + 4 * av1::obu_has_size(b) as u32;
            }
            c + 8 * av1::read_leb128(d).is_some() as u32 + 16 * av1::parse_obu_header(d).is_some() as u32
        }),
        ("av1::ObuIter", |d| av1::ObuIter::new(d).count().min(4) as u32),
        ("av1::extract_av1_config", |d| av1::extract_av1_config(d).is_some() as u32),
        ("av1::is_av1_keyframe", |d| av1::is_av1_keyframe(d) as u32),
        ("vp9::is_vp9_keyframe", |d| match vp9::is_vp9_keyframe(d) {
            Ok(b) => b as u32,
            Err(e) => 2 + (e.to_string().len() as u32 & 3),
        }),
        ("vp9::extract_vp9_config", |d| vp9::extract_vp9_config(d).is_some() as u32),
        ("vp9::is_valid_vp9_frame", |d| vp9::is_valid_vp9_frame(d) as u32),
        ("opus::packet-functions", |d| {
            let mut c = 0;
            if let Some(&b) = d.first() {
                c = opus::opus_frame_duration_from_toc(b).map(|x| (x.samples() > 480) as u32 + (x.seconds() > 0.0) as u32).unwrap_or(0);
            }
            c + 4 * opus::opus_frame_count(d).is_some() as u32 + 8 * opus::opus_packet_samples(d).is_some() as u32 + 16 * opus::is_valid_opus_packet(d) as u32
        }),
        ("validation::validate_video_frame/H264", |d| validation::validate_video_frame(VideoCodec::H264, d, true).is_valid as u32),
        ("validation::validate_video_frame/H265", |d| validation::validate_video_frame(VideoCodec::H265, d, d.len() % 2 == 0).is_valid as u32),
        ("validation::validate_video_frame/Av1", |d| validation::validate_video_frame(VideoCodec::Av1, d, true).is_valid as u32),
        ("validation::validate_video_frame/Vp9", |d| validation::validate_video_frame(VideoCodec::Vp9, d, false).is_valid as u32),
        ("validation::validate_audio_frame", |d| {
            validation::validate_audio_frame(AudioCodec::Aac(muxide::api::AacProfile::Lc), d).is_valid as u32
                + 2 * validation::validate_audio_frame(AudioCodec::Opus, d).is_valid as u32
                + 4 * validation::validate_audio_frame(AudioCodec::None, d).is_valid as u32
        }),
    ]
}

fn poke_all(fns: &[Poke], d: &[u8], order: (u64, u64), t: &mut Tally) {
    for (name, f) in fns {
        t.evaluations += 1;
        match guarded(|| f(d)) {
            Ok(class) => {
                // distinct outcome = (entry point, input length class, return class)
                let mut h = oracle::report::Fnv::new();
                h.str(name).u64(d.len().min(9) as u64).u64(class as u64);
                t.outcome(h.0);
            }
            Err(p) => report(t, name, &p, order, || json!({"engine": "E2-c12-stateless", "entry": name, "input": hex(d)})),
        }
    }
}

fn strings(alpha: &[u8], prefix: &[u8], max: usize, f: &mut impl FnMut(&[u8])) {
    fn rec(cur: &mut Vec<u8>, alpha: &[u8], max: usize, f: &mut impl FnMut(&[u8])) {
        f(cur);
        if cur.len() == max {
            return;
        }
        for &a in alpha {
            cur.push(a);
            rec(cur, alpha, max, f);
            cur.pop();
        }
    }
    let mut cur = prefix.to_vec();
    rec(&mut cur, alpha, max, f);
}

/// per-parser boundary alphabets
fn alphabets() -> Vec<(&'static str, Vec<u8>)> {
    vec![
        ("start-code/NAL", vec![0x00, 0x01, 0x03, 0x65, 0x67, 0x68, 0x40, 0x42, 0x44, 0x26]),
        ("OBU", vec![0x00, 0x02, 0x0a, 0x0e, 0x12, 0x32, 0x80, 0x7f, 0xff, 0x01]),
        ("VP9", vec![0x49, 0x83, 0x42, 0x00, 0x20, 0x10, 0x80, 0xc0, 0x0c, 0xff]),
        ("Opus/ADTS", vec![0x00, 0x03, 0x3f, 0x40, 0x80, 0xff, 0xf1, 0xf0, 0xfc, 0x07]),
    ]
}

// ---------------------------------------------------------------------------------------------
// stateful entry points
// ---------------------------------------------------------------------------------------------

pub fn f64s() -> Vec<f64> {
    vec![0.0, 1.0, f64::NAN, f64::INFINITY, f64::NEG_INFINITY, -0.0, 5e-324, 1e-9, 9007199254740992.0 / 90000.0, 1e15, 1e300, f64::MAX, -1.0, 2.0, 0.5, (18446744073709551615.0 - 1.0e6) / 90000.0, (9223372036854775808.0 - 90000.0) / 90000.0, (9223372036854775808.0 + 90000.0) / 90000.0]
}

fn video_datas(c: VCodec) -> Vec<(&'static str, Vec<u8>)> {
    vec![
        ("empty", vec![]),
        ("key", frames::video_frame(c, true, true, 1, 4).0),
        ("delta", frames::video_frame(c, false, false, 2, 4).0),
        ("one-byte", vec![0x01]),
        ("two-start-codes", vec![0, 0, 1, 0, 0, 1, 0x65]),
        ("start-code-only", vec![0, 0, 0, 1]),
        ("start-codes-only", vec![0, 0, 1, 0, 0, 0, 1]),
        ("zeros", vec![0, 0, 0]),
        ("marker-only", vec![0x49, 0x83, 0x42]),
    ]
}

fn audio_datas(a: Option<ACodec>) -> Vec<(&'static str, Vec<u8>)> {
    let ok = frames::audio_frame(a.unwrap_or(ACodec::AacLc), 1, 5).0;
    vec![
        ("empty", vec![]),
        ("ok", ok),
        ("header-only", AdtsHdr { frame_length: 7, ..Default::default() }.bytes()),
        ("one-byte", vec![0xff]),
        ("opus-code3-short", vec![0x03]),
        ("bad", vec![0xff, 0xf1, 0xff, 0xff, 0xff, 0xff, 0xff, 0xff, 0xff]),
    ]
}

#[derive(Clone, Debug)]
struct MCfg {
    codec: VCodec,
    audio: Option<(ACodec, u32, u16)>,
    width: u32,
    height: u32,
    fps: f64,
    meta: Option<(Option<String>, Option<u64>, Option<String>)>,
    fast: bool,
    /// true = only the finishers, audio calls and convenience calls are swept (the configuration
    /// value under test is only read there)
    narrow: bool,
}

fn mcfgs() -> Vec<MCfg> {
    let mut v = vec![];
    let base = |codec, audio| MCfg { codec, audio, width: 640, height: 480, fps: 30.0, meta: None, fast: true, narrow: false };
    for &c in &frames::VCODECS {
        v.push(base(c, None));
        v.push(base(c, Some((ACodec::AacLc, 48000, 2))));
        v.push(MCfg { fast: false, ..base(c, Some((ACodec::Opus, 48000, 2))) });
    }
    for (w, h) in [(0u32, 0u32), (65535, 65535), (65536, 1), (1, 65536), (u32::MAX, u32::MAX)] {
        v.push(MCfg { width: w, height: h, ..base(VCodec::H264, None) });
        v.push(MCfg { width: w, height: h, fast: false, ..base(VCodec::Vp9, Some((ACodec::AacLc, 48000, 2))) });
    }
    for fps in [0.0, -1.0, f64::NAN, f64::INFINITY, 1e300] {
        v.push(MCfg { fps, ..base(VCodec::H265, None) });
    }
    for rate in [0u32, 1, 7350, 65535, 65536, 96000, u32::MAX] {
        for ch in [0u16, 1, 8, 15, 16, 255, 256, 65535] {
            v.push(MCfg { narrow: true, ..base(VCodec::H264, Some((ACodec::AacLc, rate, ch))) });
            v.push(MCfg { narrow: true, fast: false, ..base(VCodec::Av1, Some((ACodec::Opus, rate, ch))) });
        }
    }
    for title in [Some(String::new()), Some("é".to_string()), Some("x".repeat(300)), Some("\0".to_string()), Some("x".repeat(70000)), None] {
        for time in [None, Some(0u64), Some(1u64 << 31), Some(1u64 << 32), Some(253402300799)] {
            for lang in [None, Some(String::new()), Some("e".into()), Some("eng".into()), Some("ENG".into()), Some("é1\u{10000}".into()), Some("\u{7f}\u{80}\u{ffff}".into()), Some("engl".into())] {
                v.push(MCfg { narrow: true, meta: Some((title.clone(), time, lang)), ..base(VCodec::H264, Some((ACodec::AacLc, 44100, 1))) });
            }
        }
    }
    // language tags: every string of <= 3 characters over UTF-8 lengths {1, 2, 3, 4} plus a
    // trailing ASCII letter (so that every byte offset 1..=4 falls inside a multi-byte character
    // in some tag)
    let chars = ["a", "\u{e9}", "\u{20ac}", "\u{1f600}"];
    let mut tags: Vec<String> = vec![String::new()];
    let mut frontier: Vec<String> = vec![String::new()];
    for _ in 0..3 {
        frontier = frontier.iter().flat_map(|s| chars.iter().map(move |c| format!("{s}{c}"))).collect();
        tags.extend(frontier.iter().cloned());
    }
    for tag in tags {
        for suffix in ["", "z"] {
            v.push(MCfg { narrow: true, meta: Some((None, None, Some(format!("{tag}{suffix}")))), ..base(VCodec::H264, None) });
        }
    }
    v
}

fn build_mux<W: std::io::Write>(c: &MCfg, sink: W) -> Result<Muxer<W>, MuxerError> {
    let mut b = MuxerBuilder::new(sink).video(vcodec(c.codec), c.width, c.height, c.fps);
    if let Some((a, r, ch)) = c.audio {
        b = b.audio(acodec(a), r, ch);
    }
    if let Some((t, tm, l)) = &c.meta {
        let mut m = Metadata::new();
        if let Some(t) = t {
            m = m.with_title(t.clone());
        }
        if let Some(tm) = tm {
            m = m.with_creation_time(*tm);
        }
        if let Some(l) = l {
            m = m.with_language(l.clone());
        }
        b = b.with_metadata(m);
    }
    b.with_fast_start(c.fast).build()
}

#[derive(Clone, Debug)]
enum Call {
    Wv(f64, usize, bool),
    Wvd(f64, f64, usize, bool),
    Wa(f64, usize),
    Ev(usize, u32),
    Ea(usize, u32),
    FinIn,
    FinInStats,
}

fn do_call<W: std::io::Write>(m: &mut Muxer<W>, c: &Call, vd: &[(&str, Vec<u8>)], ad: &[(&str, Vec<u8>)]) {
    match c {
        Call::Wv(p, d, k) => {
            let _ = m.write_video(*p, &vd[*d].1, *k).map_err(|e| e.to_string());
        }
        Call::Wvd(p, t, d, k) => {
            let _ = m.write_video_with_dts(*p, *t, &vd[*d].1, *k).map_err(|e| e.to_string());
        }
        Call::Wa(p, d) => {
            let _ = m.write_audio(*p, &ad[*d].1).map_err(|e| format!("{e} {e:?}"));
        }
        Call::Ev(d, ms) => {
            let _ = m.encode_video(&vd[*d].1, *ms).map_err(|e| e.to_string());
        }
        Call::Ea(d, n) => {
            let _ = m.encode_audio(&ad[*d].1, *n).map_err(|e| e.to_string());
        }
        Call::FinIn => {
            let _ = m.finish_in_place().map_err(|e| e.to_string());
        }
        Call::FinInStats => {
            let _ = m.finish_in_place_with_stats().map(|s| format!("{s:?}")).map_err(|e| e.to_string());
        }
    }
}

fn calls(nv: usize, na: usize) -> Vec<Call> {
    let mut v = vec![Call::FinIn, Call::FinInStats];
    let fs = f64s();
    for &p in &fs {
        for d in 0..nv {
            for k in [true, false] {
                v.push(Call::Wv(p, d, k));
            }
        }
        for d in 0..na {
            v.push(Call::Wa(p, d));
        }
    }
    // with_dts: all pairs over the f64 alphabet with two data kinds
    for &p in &fs {
        for &t in &fs {
            for d in [1usize, 2] {
                v.push(Call::Wvd(p, t, d, d == 1));
            }
        }
    }
    for d in 0..nv {
        for ms in [0u32, 1, 33, u32::MAX] {
            v.push(Call::Ev(d, ms));
        }
    }
    for d in 0..na {
        for n in [0u32, 1024, u32::MAX] {
            v.push(Call::Ea(d, n));
        }
    }
    v
}

/// lifecycle prefixes leading to the object states of interest
fn prefixes() -> Vec<(&'static str, Vec<Call>)> {
    vec![
        ("fresh", vec![]),
        ("after-key", vec![Call::Wv(0.0, 1, true)]),
        ("after-key-delta", vec![Call::Wv(0.0, 1, true), Call::Wv(1.0 / 30.0, 2, false)]),
        ("after-key-audio", vec![Call::Wv(0.0, 1, true), Call::Wa(0.0, 1)]),
        ("after-rejected", vec![Call::Wv(0.0, 2, false)]),
        ("after-huge-key", vec![Call::Wvd(1e15, 9007199254740992.0 / 90000.0, 1, true)]),
        ("after-finish", vec![Call::Wv(0.0, 1, true), Call::FinIn]),
        // first frame decoded later than presented, audio already running
        ("after-late-dts-key-audio", vec![Call::Wvd(0.0, 1.0, 1, true), Call::Wa(0.25, 1)]),
        // a first frame within 2^31 ticks of the largest representable tick (a saturating later
        // timestamp is then an acceptable next frame)
        ("after-near-max-key", vec![Call::Wv((18446744073709551615.0 - 1.0e6) / 90000.0, 1, true)]),
        ("after-early-dts-key-audio", vec![Call::Wvd(1.0, 0.0, 1, true), Call::Wa(1.0, 1)]),
    ]
}

fn stateful_one(cfg: &MCfg, prefix: &[Call], failing_sink: bool, c: &Call, vd: &[(&'static str, Vec<u8>)], ad: &[(&'static str, Vec<u8>)]) -> Result<(), String> {
    guarded(|| {
        let st = Rc::new(RefCell::new(FaultState::default()));
        let script = if failing_sink { Script { answers: vec![(1, crate::faults::Ans::ErrOther)], budget: None } } else { Script::default() };
        let sink = FaultSink { st, script: Rc::new(script) };
        let mut m = match build_mux(cfg, sink) {
            Ok(m) => m,
            Err(e) => {
                let _ = e.to_string();
                return;
            }
        };
        for p in prefix {
            do_call(&mut m, p, vd, ad);
        }
        if failing_sink {
            do_call(&mut m, &Call::FinIn, vd, ad); // failed finish
        }
        do_call(&mut m, c, vd, ad);
        // whatever was accepted must also be finishable without a panic
        do_call(&mut m, &Call::FinInStats, vd, ad);
        do_call(&mut m, &Call::FinIn, vd, ad);
    })
}

fn stateful_item(cfg: &MCfg, idx: u64, t: &mut Tally) {
    let vd = video_datas(cfg.codec);
    let ad = audio_datas(cfg.audio.map(|a| a.0));
    let all = calls(vd.len(), ad.len());
    let mut k = 0u64;
    for (pname, prefix) in prefixes() {
        for failing_sink in [false, true] {
            if failing_sink && pname != "fresh" && pname != "after-key" {
                continue;
            }
            for c in &all {
                if cfg.narrow && matches!(c, Call::Wv(..) | Call::Wvd(..)) {
                    continue;
                }
                k += 1;
                t.evaluations += 1;
                t.states += 1;
                let run = stateful_one(cfg, &prefix, failing_sink, c, &vd, &ad);
                if let Err(p) = run {
                    // the panic may arise in the call itself or in the finish that follows it; the
                    // panic class (message) identifies the site, the case records the call
                    let entry = "Muxer";
                    report(t, entry, &p, (idx, k), || json!({"engine": "E2-c12-stateful", "cfg": format!("{cfg:?}"), "state": pname, "failed_finish_first": failing_sink, "call": format!("{c:?}"), "cfg_idx": mcfgs().iter().position(|x| format!("{x:?}") == format!("{cfg:?}")), "call_idx": all.iter().position(|x| format!("{x:?}") == format!("{c:?}"))}));
                }
            }
        }
    }
    // consuming finishers and MuxerConfig / Metadata plumbing
    let r = guarded(|| {
        for which in 0..3 {
            if let Ok(mut m) = build_mux(cfg, Vec::new()) {
                do_call(&mut m, &Call::Wv(0.0, 1, true), &vd, &ad);
                let _ = match which {
                    0 => m.finish().map_err(|e| e.to_string()),
                    1 => m.finish_with_stats().map(|_| ()).map_err(|e| e.to_string()),
                    _ => m.flush().map_err(|e| e.to_string()),
                };
            }
        }
        let mc = MuxerConfig::new(cfg.width, cfg.height, cfg.fps).with_fast_start(cfg.fast);
        let mc = if let Some((a, r, ch)) = cfg.audio { mc.with_audio(acodec(a), r, ch).with_audio(AudioCodec::None, r, ch).with_audio(acodec(a), r, ch) } else { mc };
        let _ = format!("{:?}", mc.with_metadata(Metadata::new().with_current_time().with_title("t").with_language("eng")));
    });
    t.evaluations += 1;
    if let Err(p) = r {
        report(t, "Muxer", &p, (idx, k + 1), || json!({"engine": "E2-c12-stateful", "cfg": format!("{cfg:?}"), "call": "consuming finishers"}));
    }
}

// fragmented ------------------------------------------------------------------------------------

fn frag_configs() -> Vec<FragmentConfig> {
    let mut v = vec![];
    let lens = [0usize, 1, 4, 300];
    for &(w, h) in &[(0u32, 0u32), (1920, 1080), (65536, 65536), (u32::MAX, u32::MAX)] {
        for &ts in &[0u32, 1, 90000, u32::MAX] {
            for &fd in &[0u32, 2000, u32::MAX] {
                for (i, &l) in lens.iter().enumerate() {
                    let mut c = FragmentConfig { width: w, height: h, timescale: ts, fragment_duration_ms: fd, ..Default::default() };
                    c.sps = vec![0x67; l];
                    c.pps = vec![0x68; lens[(i + 1) % lens.len()]];
                    match i % 4 {
                        0 => {}
                        1 => c.vps = Some(vec![0x40; l]),
                        2 => c.av1_sequence_header = Some(vec![0x0a; l.min(400)]),
                        _ => c.vp9_config = Some(muxide::codec::vp9::Vp9Config { width: w, height: h, profile: 255, bit_depth: 255, color_space: 255, transfer_function: 255, matrix_coefficients: 255, level: 255, full_range_flag: 255 }),
                    }
                    v.push(c);
                }
            }
        }
    }
    // oversized parameter sets (their lengths do not fit the 16-bit fields) in a few configurations only
    for ts in [0u32, 90000] {
        let mut c = FragmentConfig { timescale: ts, ..Default::default() };
        c.sps = vec![0x67; 70000];
        c.pps = vec![0x68; 65536];
        v.push(c.clone());
        c.vps = Some(vec![0x40; 65535]);
        v.push(c);
    }
    v
}

const U64S: [u64; 8] = [0, 1, 3000, 1 << 31, 1 << 32, 1 << 63, u64::MAX - 1, u64::MAX];

#[derive(Clone, Copy, Debug)]
enum FCall {
    W(u64, u64, usize, bool),
    Flush,
    Ready,
    Dur,
    Init,
}

fn fcalls() -> Vec<FCall> {
    let mut v = vec![FCall::Flush, FCall::Ready, FCall::Dur, FCall::Init];
    for &p in &U64S {
        for &d in &U64S {
            v.push(FCall::W(p, d, 5, true));
        }
    }
    v.push(FCall::W(0, 0, 0, false));
    v.push(FCall::W(3000, 3000, 70000, false));
    v
}

fn fdo(m: &mut FragmentedMuxer, c: &FCall) {
    match *c {
        FCall::W(p, d, n, s) => {
            let data = vec![0x41u8; n];
            let _ = m.write_video(p, d, &data, s).map_err(|e| e.to_string());
        }
        FCall::Flush => {
            let _ = m.flush_segment();
        }
        FCall::Ready => {
            let _ = m.ready_to_flush();
        }
        FCall::Dur => {
            let _ = m.current_fragment_duration_ms();
        }
        FCall::Init => {
            let _ = m.init_segment();
        }
    }
}

fn frag_item(fc: &FragmentConfig, depth: usize, idx: u64, t: &mut Tally) {
    let calls = fcalls();
    let n = calls.len();
    let mut k = 0u64;
    // all call sequences of length <= depth, followed by every query and a flush
    let mut seq = vec![0usize; depth];
    let total = n.pow(depth as u32);
    for code in 0..total {
        let mut c = code;
        for s in seq.iter_mut() {
            *s = c % n;
            c /= n;
        }
        k += 1;
        t.evaluations += 1;
        t.states += 1;
        let r = guarded(|| {
            let mut m = FragmentedMuxer::new(fc.clone());
            for &s in &seq {
                fdo(&mut m, &calls[s]);
            }
            fdo(&mut m, &FCall::Ready);
            fdo(&mut m, &FCall::Dur);
            fdo(&mut m, &FCall::Flush);
            fdo(&mut m, &FCall::Init);
            if code % 97 == 0 {
                let _ = format!("{m:?}").len();
            }
        });
        if let Err(p) = r {
            let names: Vec<String> = seq.iter().map(|&s| format!("{:?}", calls[s])).collect();
            // attribute to the entry point named in the panic location when possible
            report(t, "FragmentedMuxer", &p, (idx, k), || json!({"engine": "E2-c12-frag", "config": format!("{fc:?}").chars().take(300).collect::<String>(), "calls": names}));
        }
    }
}

// builder / misc --------------------------------------------------------------------------------

fn builder_misc(t: &mut Tally) {
    let mut k = 0u64;
    for codec in [VideoCodec::H264, VideoCodec::H265, VideoCodec::Av1, VideoCodec::Vp9] {
        for mask in 0..32u32 {
            for (w, h) in [(0u32, 0u32), (640, 480), (70000, 70000)] {
                for l in [0usize, 4, 70000] {
                    k += 1;
                    t.evaluations += 1;
                    let r = guarded(|| {
                        let mut b = MuxerBuilder::new(Vec::<u8>::new()).set_video_track(codec, w, h, 30.0).set_audio_track(AudioCodec::None, 0, 0).set_create_time(u64::MAX).set_language("x");
                        if mask & 1 != 0 {
                            b = b.with_sps(vec![0x67; l]);
                        }
                        if mask & 2 != 0 {
                            b = b.with_pps(vec![0x68; l]);
                        }
                        if mask & 4 != 0 {
                            b = b.with_vps(vec![0x40; l]);
                        }
                        if mask & 8 != 0 {
                            b = b.with_av1_sequence_header(vec![0x0a; l.min(300)]);
                        }
                        if mask & 16 != 0 {
                            b = b.with_vp9_config(crate::frag::vp9cfg());
                        }
                        match b.new_with_fragment() {
                            Ok(mut m) => {
                                let _ = m.init_segment();
                                let _ = m.write_video(0, 0, &[1, 2, 3], true);
                                let _ = m.flush_segment();
                            }
                            Err(e) => {
                                let _ = format!("{e} {e:?}");
                            }
                        }
                    });
                    if let Err(p) = r {
                        report(t, "MuxerBuilder::new_with_fragment", &p, (900_000, k), || json!({"engine": "E2-c12-builder", "codec": format!("{codec:?}"), "mask": mask, "dims": [w, h], "param_len": l}));
                    }
                }
            }
        }
    }
    // builder without video, error Display of every variant reachable, FromStr of codecs
    let r = guarded(|| {
        let e = MuxerBuilder::new(Vec::<u8>::new()).build().err().map(|e| format!("{e} {e:?}"));
        let _ = e;
        for s in ["", "h264", "H.265", "av1", "vp9", "é", "aac-hev2", "none", "opus", "\0"] {
            let _ = s.parse::<VideoCodec>().map(|c| c.to_string());
            let _ = s.parse::<AudioCodec>().map(|c| c.to_string());
        }
        let _ = opus::OpusConfig::mono().with_pre_skip(u16::MAX).with_channels(255);
        let _ = opus::OpusConfig::stereo().with_channels(0);
        muxide::invariant_ppt::clear_invariant_log();
        let _ = muxide::invariant_ppt::get_logged_invariants();
        muxide::invariant_ppt::contract_test("empty requirement list", &[]);
        for c in [VideoCodec::H264, VideoCodec::Vp9] {
            for (w, h, f) in [(0u32, 0u32, 0.0f64), (320, 240, 30.0), (u32::MAX, u32::MAX, f64::NAN), (4096, 2160, 120.0), (4097, 1, f64::INFINITY)] {
                let _ = validation::validate_video_config(c, w, h, f);
            }
        }
        for a in [AudioCodec::None, AudioCodec::Opus] {
            for (r, ch) in [(0u32, 0u8), (192000, 8), (u32::MAX, 255)] {
                let _ = validation::validate_audio_config(a, r, ch);
            }
        }
        let vcfg = |codec, frame: Option<(Vec<u8>, bool)>| validation::VideoValidationConfig { codec, width: Some(640), height: None, framerate: Some(f64::NAN), sample_frame: frame };
        let acfg = |codec, frame: Option<Vec<u8>>| validation::AudioValidationConfig { codec, sample_rate: Some(0), channels: Some(0), sample_frame: frame };
        for vc in [None, Some(VideoCodec::H265)] {
            for ac in [None, Some(AudioCodec::None), Some(AudioCodec::Opus)] {
                let _ = validation::validate_muxing_config(vcfg(vc, Some((vec![], true))), acfg(ac, Some(vec![])));
                let _ = validation::validate_muxing_config(validation::VideoValidationConfig { codec: vc, width: Some(640), height: Some(480), framerate: Some(30.0), sample_frame: Some((vec![1, 2, 3, 4], false)) }, acfg(ac, Some(vec![0xff; 3])));
            }
        }
        let v = validation::ValidationResult::valid().with_message("m".into()).with_error("e".into());
        let _ = validation::ValidationResult::invalid(v.errors.clone());
    });
    t.evaluations += 1;
    if let Err(p) = r {
        report(t, "builder/validation/misc", &p, (900_001, 0), || json!({"engine": "E2-c12-misc"}));
    }
    // ADTS through the public API: every declared frame length 0..=40 x protection flag x buffer
    // length 0..=24 (+ exact), written and then finished
    for fl in 0..=40usize {
        for protected in [false, true] {
            for buflen in (0..=24usize).chain([fl, fl + 1]) {
                t.evaluations += 1;
                let mut f = AdtsHdr { protection_absent: !protected, frame_length: fl as u16, ..Default::default() }.bytes();
                f.resize(buflen.max(f.len().min(buflen)), 0x3c);
                f.truncate(buflen);
                let r = guarded(|| {
                    let mut m = MuxerBuilder::new(Vec::<u8>::new()).video(VideoCodec::H264, 64, 64, 30.0).audio(AudioCodec::Aac(muxide::api::AacProfile::Lc), 48000, 2).build().unwrap();
                    let (k, _) = frames::video_frame(VCodec::H264, true, true, 1, 4);
                    m.write_video(0.0, &k, true).unwrap();
                    let _ = m.write_audio(0.0, &f).map_err(|e| e.to_string());
                    let _ = m.finish_in_place_with_stats().map_err(|e| e.to_string());
                });
                if let Err(p) = r {
                    report(t, "Muxer::write_audio/ADTS", &p, (900_003, (fl * 100 + buflen) as u64 * 2 + protected as u64), || json!({"engine": "E2-c12-adts", "frame": hex(&f)}));
                }
            }
        }
    }
    // ADTS error values: every error kind x frame length 0..=24, all accessors and both Display forms
    for len in 0..=24usize {
        for variant in 0..8 {
            t.evaluations += 1;
            let mut f = match variant {
                0 => AdtsHdr { frame_length: 7, ..Default::default() }.bytes(),
                1 => AdtsHdr { sync: 0xffe, ..Default::default() }.bytes(),
                2 => AdtsHdr { id: 1, ..Default::default() }.bytes(),
                3 => AdtsHdr { layer: 2, ..Default::default() }.bytes(),
                4 => AdtsHdr { sfi: 15, ..Default::default() }.bytes(),
                5 => AdtsHdr { chan: 0, ..Default::default() }.bytes(),
                6 => AdtsHdr { frame_length: 8191, ..Default::default() }.bytes(),
                _ => AdtsHdr { protection_absent: false, frame_length: 3, ..Default::default() }.bytes(),
            };
            f.resize(len, 0xa5);
            let r = guarded(|| {
                let mut m = MuxerBuilder::new(Vec::<u8>::new()).video(VideoCodec::H264, 64, 64, 30.0).audio(AudioCodec::Aac(muxide::api::AacProfile::Lc), 48000, 2).build().unwrap();
                let (k, _) = frames::video_frame(VCodec::H264, true, true, 1, 4);
                m.write_video(0.0, &k, true).unwrap();
                if let Err(MuxerError::InvalidAdtsDetailed { error, .. }) = m.write_audio(0.0, &f) {
                    let _ = (error.to_json().map(|s| s.len()), error.to_json_compact().map(|s| s.len()), error.is_critical(), error.all_errors().len());
                    let _ = format!("{error} {error:#} {error:?}");
                }
            });
            if let Err(p) = r {
                report(t, "write_audio/AdtsValidationError", &p, (900_002, (len * 8 + variant) as u64), || json!({"engine": "E2-c12-adts", "frame": hex(&f)}));
            }
        }
    }
}

/// creation times run in child processes: the calendar conversion may loop for minutes
pub fn child_time(secs: u64) -> i32 {
    let r = guarded(|| {
        let mut m = MuxerBuilder::new(Vec::<u8>::new()).video(VideoCodec::H264, 64, 64, 30.0).with_metadata(Metadata::new().with_creation_time(secs)).build().unwrap();
        let _ = m.finish_in_place_with_stats();
    });
    match r {
        Ok(()) => 0,
        Err(p) => {
            println!("PANIC {p}");
            3
        }
    }
}

/// every day of a range at the first, middle and last second (child process: a stall or an abort
/// in the calendar conversion must not take the engine with it)
pub fn child_days(d0: u64, d1: u64) -> i32 {
    for day in d0..d1 {
        for sod in [0u64, 43_200, 86_399] {
            let secs = day * 86_400 + sod;
            let r = guarded(|| {
                let mut m = MuxerBuilder::new(Vec::<u8>::new()).video(VideoCodec::H264, 64, 64, 30.0).with_metadata(Metadata::new().with_creation_time(secs)).build().unwrap();
                let _ = m.finish_in_place_with_stats();
            });
            if let Err(p) = r {
                println!("PANIC {secs} {p}");
                return 3;
            }
        }
    }
    0
}

/// calendar sweep: every day from 1970-01-01 to 9999-12-31 (2 932 897 days), split over 16 children
fn creation_days(t: &mut Tally) {
    let exe = std::env::current_exe().expect("exe");
    let last: u64 = 2_932_897;
    let n = 16u64;
    let mut children = vec![];
    for i in 0..n {
        let (a, b) = (last * i / n, last * (i + 1) / n);
        let c = std::process::Command::new(&exe).arg("--c12-days").arg(a.to_string()).arg(b.to_string()).stdout(std::process::Stdio::piped()).stderr(std::process::Stdio::null()).spawn().expect("spawn child");
        children.push((a, b, c, std::time::Instant::now()));
    }
    for (i, (a, b, mut c, started)) in children.into_iter().enumerate() {
        t.evaluations += (b - a) * 3;
        let limit = std::time::Duration::from_secs(300);
        let status = loop {
            match c.try_wait() {
                Ok(Some(st)) => break Some(st),
                Ok(None) => {
                    if started.elapsed() > limit {
                        let _ = c.kill();
                        let _ = c.wait();
                        break None;
                    }
                    std::thread::sleep(std::time::Duration::from_millis(20));
                }
                Err(_) => break None,
            }
        };
        match status {
            None => t.violation("C12/Muxer::finish/creation-day/does-not-terminate", (960_000, i as u64), || format!("finish for the days {a}..{b} since 1970 did not return within 300 s"), || json!({"engine": "E2-c12-days", "from": a, "to": b})),
            Some(st) if st.code() == Some(3) => {
                let mut out = String::new();
                if let Some(mut o) = c.stdout.take() {
                    use std::io::Read;
                    let _ = o.read_to_string(&mut out);
                }
                let line = out.trim().trim_start_matches("PANIC ");
                let (secs, msg) = line.split_once(' ').unwrap_or(("0", line));
                let secs: u64 = secs.parse().unwrap_or(0);
                report(t, "Muxer::finish/creation-time", msg, (960_000, i as u64), || json!({"engine": "E2-c12-time", "creation_time": secs}));
            }
            Some(st) if !st.success() => t.violation("C12/Muxer::finish/creation-day/child-died", (960_000, i as u64), || format!("child for the days {a}..{b} ended with {st:?}"), || json!({"engine": "E2-c12-days", "from": a, "to": b})),
            _ => {}
        }
    }
}

fn creation_times(t: &mut Tally) {
    let exe = std::env::current_exe().expect("exe");
    let times: Vec<u64> = vec![0, 86399, 1 << 31, 1 << 32, 253402300799, 253402300800, 1 << 40, 1 << 50, 1 << 62, 1 << 63, u64::MAX - 86400, u64::MAX];
    let mut children: Vec<(u64, std::process::Child, std::time::Instant)> = vec![];
    for &s in &times {
        let c = std::process::Command::new(&exe).arg("--c12-time").arg(s.to_string()).stdout(std::process::Stdio::piped()).stderr(std::process::Stdio::null()).spawn().expect("spawn child");
        children.push((s, c, std::time::Instant::now()));
    }
    for (i, (s, mut c, started)) in children.into_iter().enumerate() {
        t.evaluations += 1;
        let limit = std::time::Duration::from_secs(5);
        let status = loop {
            match c.try_wait() {
                Ok(Some(st)) => break Some(st),
                Ok(None) => {
                    if started.elapsed() > limit {
                        let _ = c.kill();
                        let _ = c.wait();
                        break None;
                    }
                    std::thread::sleep(std::time::Duration::from_millis(20));
                }
                Err(_) => break None,
            }
        };
        match status {
            None => t.violation("C12/Muxer::finish/creation-time/does-not-terminate", (950_000, i as u64), || format!("finish with creation time {s} did not return within 5 s"), || json!({"engine": "E2-c12-time", "creation_time": s})),
            Some(st) if st.code() == Some(3) => {
                let mut out = String::new();
                if let Some(mut o) = c.stdout.take() {
                    use std::io::Read;
                    let _ = o.read_to_string(&mut out);
                }
                report(t, "Muxer::finish/creation-time", out.trim().trim_start_matches("PANIC "), (950_000, i as u64), || json!({"engine": "E2-c12-time", "creation_time": s}));
            }
            Some(st) if !st.success() => t.violation("C12/Muxer::finish/creation-time/child-died", (950_000, i as u64), || format!("child for creation time {s} ended with {st:?}"), || json!({"engine": "E2-c12-time", "creation_time": s})),
            _ => {}
        }
    }
}

// ---------------------------------------------------------------------------------------------

enum Item {
    Strings(&'static str, Vec<u8>, Vec<u8>, usize),
    AllBytes(u8, bool),
    Av1Bits(u32, u32),
    Av1Headers(Vec<frames::SeqHdr>),
    Exemplars(Vec<Vec<u8>>),
    Stateful(MCfg),
    Frag(FragmentConfig, usize),
}

fn exemplars() -> Vec<Vec<u8>> {
    let mut v = vec![];
    for &c in &frames::VCODECS {
        v.push(frames::video_frame(c, true, true, 1, 6).0);
        v.push(frames::video_frame(c, false, false, 2, 6).0);
    }
    for h in av1_headers(false).into_iter().step_by(97) {
        v.push(frames::av1_seq_obu(&h));
    }
    v.push(frames::Vp9Hdr { profile: 3, render: Some((640, 360)), ..Default::default() }.header(true));
    v.push(frames::adts_frame(1, 9, false).0);
    v.push(frames::adts_frame(1, 9, true).0);
    v.push(frames::opus_packet(1, 9));
    v.push(vec![0x03, 0x81, 0x10, 0x20]);
    v
}

pub fn check(ctx: &Ctx) -> i32 {
    let fns = stateless_fns();
    let mut items = vec![];
    let slen = if ctx.thorough { 7 } else { 6 };
    for (name, alpha) in alphabets() {
        items.push(Item::Strings(name, alpha.clone(), vec![], 1));
        for &a in &alpha {
            for &b in &alpha {
                items.push(Item::Strings(name, alpha.clone(), vec![a, b], slen));
            }
        }
    }
    for first in 0..=255u8 {
        items.push(Item::AllBytes(first, ctx.thorough));
    }
    let bits = if ctx.thorough { 24 } else { 20 };
    for chunk in 0..64u32 {
        items.push(Item::Av1Bits(bits, chunk));
    }
    let av1_hdrs = crate::codeccfg::av1_headers(ctx.thorough);
    let n_av1_hdrs = av1_hdrs.len();
    for ch in av1_hdrs.chunks(4000) {
        items.push(Item::Av1Headers(ch.to_vec()));
    }
    let ex = exemplars();
    let n_ex = ex.len();
    for ch in ex.chunks(4) {
        items.push(Item::Exemplars(ch.to_vec()));
    }
    let mc = mcfgs();
    let n_mc = mc.len();
    for c in mc {
        items.push(Item::Stateful(c));
    }
    let fc = frag_configs();
    let n_fc = fc.len();
    let fdepth = if ctx.thorough { 3 } else { 2 };
    for c in fc {
        items.push(Item::Frag(c, fdepth));
    }
    // one level deeper on the ordinary configurations (accept / reject / accept / flush shapes)
    for ts in [90000u32, 1000] {
        items.push(Item::Frag(FragmentConfig { timescale: ts, ..Default::default() }, fdepth + 1));
    }
    let boundary: Vec<u8> = vec![0x00, 0x01, 0x7f, 0x80, 0xff, 0x03, 0x0a, 0x49];
    let prof = std::env::var("VERIF_PROFILE").is_ok();
    let mut tally = par_items(&items, ctx.seed, |idx, it, t| { let t0 = std::time::Instant::now(); match it {
        Item::Strings(_, alpha, prefix, max) => {
            let mut k = 0;
            strings(alpha, prefix, *max, &mut |s| {
                k += 1;
                poke_all(&fns, s, (idx as u64, k), t);
            });
        }
        Item::AllBytes(first, three) => {
            // all strings of length <= 3 over all 256 byte values (split by first byte)
            let mut k = 0u64;
            if *first == 0 {
                poke_all(&fns, &[], (idx as u64, 0), t);
            }
            poke_all(&fns, &[*first], (idx as u64, 1), t);
            for b in 0..=255u8 {
                poke_all(&fns, &[*first, b], (idx as u64, 2 + b as u64), t);
                for c in 0..=255u8 {
                    if !*three {
                        break;
                    }
                    k += 1;
                    poke_all(&fns[9..17], &[*first, b, c], (idx as u64, 1000 + k), t);
                }
            }
        }
        Item::Av1Bits(bits, chunk) => {
            // every sequence-header payload of exactly `bits` bits behind a well-formed OBU header
            let total = 1u64 << bits;
            let per = total / 64;
            for v in (*chunk as u64 * per)..((*chunk as u64 + 1) * per) {
                let nbytes = (*bits as usize + 7) / 8;
                let mut p = vec![0u8; nbytes];
                for i in 0..nbytes {
                    p[i] = ((v << (nbytes * 8 - *bits as usize)) >> (8 * (nbytes - 1 - i))) as u8;
                }
                let o = frames::obu(1, false, true, &p);
                t.evaluations += 1;
                if let Err(pm) = guarded(|| {
                    let _ = av1::extract_av1_config(&o);
                }) {
                    report(t, "av1::extract_av1_config", &pm, (idx as u64, v), || json!({"engine": "E2-c12-stateless", "entry": "av1::extract_av1_config", "input": hex(&o)}));
                }
            }
        }
        Item::Av1Headers(hs) => {
            // every header of the generator's branch product (incl. uvlc escapes, scalable
            // streams, every colour branch): through the parser, as a first keyframe, and as a
            // builder-supplied sequence header of a fragmented muxer
            for (k, h) in hs.iter().enumerate() {
                let seq = frames::av1_seq_obu(h);
                let frame = [frames::obu(2, false, true, &[]), seq.clone(), frames::obu(6, false, true, &[0x10, 0x41])].concat();
                t.evaluations += 3;
                if let Err(pm) = guarded(|| {
                    let _ = av1::extract_av1_config(&frame);
                    let _ = av1::is_av1_keyframe(&frame);
                }) {
                    report(t, "av1::extract_av1_config", &pm, (idx as u64, k as u64), || json!({"engine": "E2-c12-stateless", "entry": "av1::extract_av1_config", "input": hex(&frame)}));
                }
                if let Err(pm) = guarded(|| {
                    if let Ok(mut m) = muxide::api::MuxerBuilder::new(Vec::<u8>::new()).video(muxide::api::VideoCodec::Av1, 640, 480, 30.0).build() {
                        let _ = m.write_video(0.0, &frame, true).map_err(|e| e.to_string());
                        let _ = m.finish_in_place().map_err(|e| e.to_string());
                    }
                    if let Ok(mut f) = muxide::api::MuxerBuilder::new(Vec::<u8>::new()).video(muxide::api::VideoCodec::Av1, 640, 480, 30.0).with_av1_sequence_header(seq.clone()).new_with_fragment() {
                        let _ = f.init_segment();
                    }
                }) {
                    report(t, "Muxer/AV1-header", &pm, (idx as u64, k as u64), || json!({"engine": "E2-c12-av1-header", "frame": hex(&frame)}));
                }
            }
        }
        Item::Exemplars(list) => {
            let mut k = 0u64;
            for e in list {
                // every truncation, every single-byte substitution by a boundary byte, and every
                // pair of substitutions in the first 12 bytes ("one- and two-deviation" neighbourhoods)
                for n in 0..=e.len() {
                    k += 1;
                    poke_all(&fns, &e[..n], (idx as u64, k), t);
                }
                for i in 0..e.len() {
                    for &b in &boundary {
                        let mut m = e.clone();
                        m[i] = b;
                        k += 1;
                        poke_all(&fns, &m, (idx as u64, k), t);
                        for j in (i + 1)..e.len().min(12) {
                            for &b2 in &boundary {
                                let mut m2 = m.clone();
                                m2[j] = b2;
                                k += 1;
                                poke_all(&fns, &m2, (idx as u64, k), t);
                            }
                        }
                    }
                }
            }
        }
        Item::Stateful(c) => stateful_item(c, idx as u64, t),
        Item::Frag(c, d) => frag_item(c, if c.sps.len() > 1000 { 1 } else { *d }, idx as u64, t),
    }
    if prof && t0.elapsed().as_millis() > 1500 {
        eprintln!("slow item {idx}: {} ms kind {}", t0.elapsed().as_millis(), match it { Item::Strings(..) => "strings", Item::AllBytes(..) => "allbytes", Item::Av1Bits(..) => "av1bits", Item::Av1Headers(..) => "av1headers", Item::Exemplars(..) => "exemplars", Item::Stateful(c) => { eprintln!("{c:?}"); "stateful" }, Item::Frag(..) => "frag" });
    }
    });
    builder_misc(&mut tally);
    creation_times(&mut tally);
    creation_days(&mut tally);
    // distinct outcome classes: here the oracle is "no unwind, no stall", so distinctness is
    // counted over entry points x input classes that were exercised
    for (i, (n, _)) in fns.iter().enumerate() {
        tally.outcome(oracle::report::h64(n.as_bytes()) ^ i as u64);
    }
    tally.sample(3, || json!({"stateless_entry_points": fns.iter().map(|f| f.0).collect::<Vec<_>>()}));
    tally.sample(3, || json!({"stateful_call_example": "state after-key, write_video_with_dts(pts=1e300, dts=NaN, delta frame, key=false), then finish_in_place_with_stats and finish_in_place"}));
    tally.sample(3, || json!({"f64_alphabet": f64s().iter().map(|x| format!("{x:?}")).collect::<Vec<_>>()}));
    finish(
        ctx,
        &tally,
        Meta {
            level: "exploration",
            rule: format!("stateless: {} public entry points of codec::* and validation on (i) all byte strings of length <= 2 over all 256 values (thorough: also length 3 for the header parsers), (ii) all strings of length <= {slen} over four 10-byte boundary alphabets, (iii) all 2^{bits} AV1 sequence-header payloads of {bits} bits and the {n_av1_hdrs} syntactically valid headers of C07's branch product (uvlc escapes, scalable streams) through the parser, a first keyframe + finish and a fragmented init segment, (iv) every truncation, every single and (first 12 bytes) double boundary-byte substitution of {n_ex} valid exemplars; stateful: every Muxer method in 7 lifecycle states (+ after a failed finish) with every argument tuple over a 14-value f64 alphabet, 6 video / 6 audio payload shapes and integer extremes, each followed by finish, over {n_mc} configurations (dimension, frame-rate, sample-rate, channel, title, creation-time and language extremes); FragmentedMuxer: every call sequence of length <= {fdepth} over 70 calls (64 pts/dts pairs over u64 extremes) on {n_fc} FragmentConfig values incl. timescale 0 and empty / 70000-byte parameter sets; builder parameter product; ADTS error values; 12 creation times up to u64::MAX in child processes with a 5 s limit; every day from 1970-01-01 to 9999-12-31 at its first, middle and last second as creation time (16 child processes). Oracle: no unwind (catch_unwind, overflow checks and debug assertions on), no stall. distinct_nontrivial counts distinct (stateless entry point, input length class, return class) triples observed plus entry points registered.", fns.len()),
            bound: format!("string length {slen}, AV1 payload bits {bits}, fragmented depth {fdepth}"),
            exhaustive: true,
            assumptions: vec!["functions whose documented purpose is to panic (assert_invariant! with a false condition, contract_test with a missing invariant) are exempt".into(), "allocation failure aborts the process and is out of scope (no input above 70000 bytes is used)".into()],
            extra: json!({"entry_points": fns.len()}),
        },
    )
}

pub fn replay(case: &Value) -> i32 {
    match case["engine"].as_str() {
        Some("E2-c12-stateless") => {
            let d = oracle::model::unhex(case["input"].as_str().unwrap_or("")).unwrap_or_default();
            let entry = case["entry"].as_str().unwrap_or("");
            for (n, f) in stateless_fns() {
                if n == entry {
                    return match guarded(|| f(&d)) {
                        Ok(_) => {
                            println!("replay: {entry}({}) returns normally", hex(&d));
                            0
                        }
                        Err(p) => {
                            println!("replay: VIOLATION {entry}({}) panics: {p}", hex(&d));
                            1
                        }
                    };
                }
            }
            2
        }
        Some("E2-c12-time") => {
            let s = case["creation_time"].as_u64().unwrap_or(0);
            println!("replaying finish with creation time {s} (may take long on an unrepaired tree)");
            child_time(s).min(1)
        }
        Some("E2-c12-days") => child_days(case["from"].as_u64().unwrap_or(0), case["to"].as_u64().unwrap_or(0)).min(1),
        Some("E2-c12-stateful") if case["cfg_idx"].is_u64() && case["call_idx"].is_u64() => {
            let cfgs = mcfgs();
            let Some(cfg) = cfgs.get(case["cfg_idx"].as_u64().unwrap() as usize) else { return 2 };
            let vd = video_datas(cfg.codec);
            let ad = audio_datas(cfg.audio.map(|a| a.0));
            let all = calls(vd.len(), ad.len());
            let Some(c) = all.get(case["call_idx"].as_u64().unwrap() as usize) else { return 2 };
            let Some((_, prefix)) = prefixes().into_iter().find(|(n, _)| Some(*n) == case["state"].as_str()) else { return 2 };
            println!("replaying {cfg:?}: state {:?}, call {c:?}, then finish", case["state"]);
            match stateful_one(cfg, &prefix, case["failed_finish_first"].as_bool().unwrap_or(false), c, &vd, &ad) {
                Ok(()) => {
                    println!("replay: property C12 holds for this case (no panic)");
                    0
                }
                Err(p) => {
                    println!("replay: VIOLATION panic: {p}");
                    1
                }
            }
        }
        _ => {
            println!("replay for this C12 case: see the 'case' object (configuration, state, call); re-run ./check C12 quick");
            2
        }
    }
}
