//! C18 - title, creation date and language are stored faithfully and touch nothing else.

use crate::run::run_finished;
use oracle::fileck::same_movie;
use oracle::frames::{audio_frame, video_frame, ACodec, VCodec};
use oracle::model::{Bytes, Cfg, Meta as MMeta, Op, T};
use oracle::reader::{parse_movie, Class, Movie};
use oracle::refmodel::{civil_from_days, iso8601};
use oracle::report::{finish, par_items, Ctx, Fnv, Meta, Tally};
use serde_json::{json, Value};

type Issues = Vec<(String, String)>;

/// frame counts of LONG + n mean: n frames 15 000 s apart (three of them make a track of more
/// than 2^31 and less than 2^32 ticks - header layouts that depend on the track length)
const LONG: usize = 100;

fn frames_for(cfg: &Cfg, n: usize) -> Vec<Op> {
    let mut ops = vec![];
    let (n, spacing) = if n >= LONG { (n - LONG, 15_000.0) } else { (n, 1.0 / 30.0) };
    for i in 0..n {
        let (d, _) = video_frame(cfg.codec, i == 0, i == 0, i as u32 + 1, 5 + i);
        ops.push(Op::WV { pts: T(i as f64 * spacing), data: Bytes::new(d), key: i == 0 });
        if let Some(a) = &cfg.audio {
            let (d, _) = audio_frame(a.codec, i as u32, 6);
            ops.push(Op::WA { pts: T(i as f64 * spacing), data: Bytes::new(d) });
        }
    }
    ops
}

/// everything C18 says about one file produced with metadata `meta`
fn metadata_issues(m: &Movie, meta: &Option<MMeta>, well_formed_lang: bool) -> Issues {
    let mut out = vec![];
    let title = meta.as_ref().and_then(|x| x.title.clone());
    let time = meta.as_ref().and_then(|x| x.time);
    let lang = meta.as_ref().and_then(|x| x.lang.clone());
    for p in m.probs.of(&[Class::Tile, Class::Mandatory, Class::Count]) {
        out.push((format!("malformed/{}", p.sig), p.detail.clone()));
    }
    match (&m.udta, title.is_some() || time.is_some()) {
        (Some(_), false) => out.push(("udta-present-without-title-or-time".into(), "user-data box emitted although neither title nor creation time is configured".into())),
        (None, true) => out.push(("udta-missing".into(), "title or creation time configured but no user-data box".into())),
        _ => {}
    }
    if let Some(u) = &m.udta {
        if u.meta_handler != Some(*b"mdir") {
            out.push(("meta-handler".into(), format!("meta handler {:?}", u.meta_handler.map(|h| oracle::reader::fcc(&h)))));
        }
        let nam: Vec<_> = u.items.iter().filter(|i| &i.key == b"\xa9nam").collect();
        let day: Vec<_> = u.items.iter().filter(|i| &i.key == b"\xa9day").collect();
        let other = u.items.len() - nam.len() - day.len();
        if other > 0 {
            out.push(("unexpected-item".into(), format!("{other} items other than (c)nam/(c)day")));
        }
        match (&title, nam.len()) {
            (Some(t), 1) => {
                if nam[0].value != t.as_bytes() {
                    out.push(("title-bytes".into(), format!("(c)nam holds {} bytes {:02x?}.., title is {} bytes", nam[0].value.len(), &nam[0].value[..nam[0].value.len().min(12)], t.len())));
                }
                if nam[0].data_type != 1 || nam[0].locale != 0 {
                    out.push(("title-data-type".into(), format!("data type {} locale {}", nam[0].data_type, nam[0].locale)));
                }
            }
            (Some(_), n) => out.push(("title-item-count".into(), format!("{n} (c)nam items"))),
            (None, 0) => {}
            (None, n) => out.push(("title-item-without-title".into(), format!("{n} (c)nam items"))),
        }
        match (time, day.len()) {
            (Some(t), 1) => {
                let want = iso8601(t);
                if day[0].value != want.as_bytes() {
                    out.push(("creation-date".into(), format!("(c)day says {:?}, Unix second {t} is {want}", String::from_utf8_lossy(&day[0].value))));
                }
                if day[0].data_type != 1 || day[0].locale != 0 {
                    out.push(("date-data-type".into(), format!("data type {} locale {}", day[0].data_type, day[0].locale)));
                }
            }
            (Some(_), n) => out.push(("date-item-count".into(), format!("{n} (c)day items"))),
            (None, 0) => {}
            (None, n) => out.push(("date-item-without-time".into(), format!("{n} (c)day items"))),
        }
    }
    if well_formed_lang {
        let want = lang.unwrap_or_else(|| "und".to_string());
        for (i, t) in m.tracks.iter().enumerate() {
            if t.mdhd.language != want {
                out.push(("language".into(), format!("track {i} mdhd language {:?} ({:#06x}), configured {want:?}", t.mdhd.language, t.mdhd.lang_raw)));
            }
        }
    }
    out
}

fn judge(cfg: &Cfg, nframes: usize, well_formed_lang: bool, differential: bool, order: (u64, u64), t: &mut Tally) {
    let ops = frames_for(cfg, nframes);
    let ex = run_finished(cfg, &ops);
    t.evaluations += 1;
    let case = || json!({"engine": "E2-c18", "cfg": cfg, "frames": nframes, "well_formed_lang": well_formed_lang});
    if let Some((i, m)) = ex.panicked() {
        t.violation("C18/panic", order, || format!("{:?}: call {i} panicked: {m}", cfg.meta), case);
        return;
    }
    if !ex.results.iter().all(|r| r.is_ok()) {
        t.count("runs_with_rejections", 1);
        return;
    }
    let m = parse_movie(&ex.bytes, "prog");
    let mut h = Fnv::new();
    if let Some(u) = &m.udta {
        h.bytes(&ex.bytes[u.range.0..u.range.1]);
    }
    for tr in &m.tracks {
        h.u64(tr.mdhd.lang_raw as u64);
    }
    t.outcome(h.0);
    let mut issues = metadata_issues(&m, &cfg.meta, well_formed_lang);
    if differential && cfg.meta.is_some() {
        let mut plain = cfg.clone();
        plain.meta = None;
        let ex0 = run_finished(&plain, &ops);
        t.evaluations += 1;
        let m0 = parse_movie(&ex0.bytes, "prog");
        for (s, d) in same_movie(&ex.bytes, &m, &ex0.bytes, &m0, true) {
            issues.push((format!("metadata-changes-movie/{s}"), d));
        }
        // positions shift consistently: by the size of udta in the fast-start layout, not at all otherwise
        let shift = if cfg.fast_start { m.udta.as_ref().map(|u| (u.range.1 - u.range.0) as i64).unwrap_or(0) } else { 0 };
        for (a, b) in m.tracks.iter().zip(m0.tracks.iter()) {
            if a.stco.len() != b.stco.len() || a.stco.iter().zip(&b.stco).any(|(x, y)| *x as i64 - *y as i64 != shift) {
                issues.push(("inconsistent-offset-shift".into(), format!("chunk offsets {:?} vs {:?} without metadata, expected a uniform shift of {shift}", a.stco, b.stco)));
                break;
            }
        }
    }
    t.sample(3, || json!({"meta": cfg.meta, "frames": nframes, "udta_items": m.udta.as_ref().map(|u| u.items.iter().map(|i| (oracle::reader::fcc(&i.key), String::from_utf8_lossy(&i.value).chars().take(30).collect::<String>())).collect::<Vec<_>>()), "languages": m.tracks.iter().map(|t| t.mdhd.language.clone()).collect::<Vec<_>>()}));
    for (s, d) in issues {
        t.violation(&format!("C18/{s}"), order, || format!("{} meta {:?}: {d}", cfg.short(), cfg.meta.as_ref().map(|m| (m.title.as_ref().map(|t| t.chars().take(20).collect::<String>()), m.time, m.lang.clone()))), case);
    }
}

/// Builder chains that must be equivalent to handing over the complete Metadata value:
/// with_metadata(title) first, then set_create_time / set_language in either order; and the two
/// setters alone in either order. (with_metadata replaces the whole value by design, so chains
/// that call it after a setter are not claimed.)
fn judge_chains(order: (u64, u64), t: &mut Tally) {
    use muxide::api::{Metadata, MuxerBuilder, VideoCodec};
    let mut k = 0;
    for title in [None, Some("Chained é")] {
        for time in [None, Some(951_782_400u64)] {
            for lang in [None, Some("fra")] {
                for chain in 0..2 {
                    k += 1;
                    t.evaluations += 1;
                    let mut out = Vec::new();
                    {
                        let mut b = MuxerBuilder::new(&mut out).video(VideoCodec::H264, 640, 480, 30.0);
                        if let Some(ti) = title {
                            b = b.with_metadata(Metadata::new().with_title(ti));
                        }
                        let steps: [u8; 2] = if chain == 0 { [0, 1] } else { [1, 0] };
                        for s in steps {
                            if s == 0 {
                                if let Some(tm) = time {
                                    b = b.set_create_time(tm);
                                }
                            } else if let Some(l) = lang {
                                b = b.set_language(l);
                            }
                        }
                        let mut m = b.build().expect("build");
                        let _ = m.finish_in_place();
                    }
                    let meta = if title.is_none() && time.is_none() && lang.is_none() { None } else { Some(MMeta { title: title.map(|s| s.to_string()), time, lang: lang.map(|s| s.to_string()) }) };
                    let m = parse_movie(&out, "prog");
                    for (s, d) in metadata_issues(&m, &meta, true) {
                        t.violation(&format!("C18/builder-chain/{s}"), (order.0, order.1 + k), || format!("with_metadata(title={title:?}) then {} (time {time:?}, language {lang:?}): {d}", if chain == 0 { "set_create_time, set_language" } else { "set_language, set_create_time" }), || json!({"engine": "E2-c18-chain", "title": title, "time": time, "lang": lang, "chain": chain}));
                    }
                }
            }
        }
    }
}

/// Metadata values assembled through the chaining setters in every order (every permutation of
/// every subset of with_title / with_creation_time / with_language, and each setter also called
/// twice - a decoy value first): the value handed to the builder holds what the last call of each
/// setter said, whatever the order.
fn judge_metadata_setter_orders(order: (u64, u64), t: &mut Tally) {
    use muxide::api::{Metadata, MuxerBuilder, VideoCodec};
    let perms: [&[u8]; 16] = [&[], &[0], &[1], &[2], &[0, 1], &[1, 0], &[0, 2], &[2, 0], &[1, 2], &[2, 1], &[0, 1, 2], &[0, 2, 1], &[1, 0, 2], &[1, 2, 0], &[2, 0, 1], &[2, 1, 0]];
    let mut k = 0;
    for perm in perms {
        for decoy in [false, true] {
            for audio in [false, true] {
                k += 1;
                t.evaluations += 1;
                let mut md = Metadata::new();
                if decoy {
                    for &s in perm.iter().rev() {
                        md = match s {
                            0 => md.with_title("decoy title"),
                            1 => md.with_creation_time(86_400),
                            _ => md.with_language("zzz"),
                        };
                    }
                }
                for &s in perm {
                    md = match s {
                        0 => md.with_title("Ordered é"),
                        1 => md.with_creation_time(951_782_400),
                        _ => md.with_language("deu"),
                    };
                }
                let mut out = Vec::new();
                {
                    let mut b = MuxerBuilder::new(&mut out).video(VideoCodec::H264, 640, 480, 30.0).with_fast_start(k % 2 == 0);
                    if audio {
                        b = b.audio(muxide::api::AudioCodec::Opus, 48000, 2);
                    }
                    let mut m = b.with_metadata(md).build().expect("build");
                    let _ = m.finish_in_place();
                }
                let has = |x: u8| perm.contains(&x);
                let meta = if perm.is_empty() { Some(MMeta { title: None, time: None, lang: None }) } else { Some(MMeta { title: has(0).then(|| "Ordered é".to_string()), time: has(1).then_some(951_782_400), lang: has(2).then(|| "deu".to_string()) }) };
                let m = parse_movie(&out, "prog");
                for (s, d) in metadata_issues(&m, &meta, true) {
                    t.violation(&format!("C18/metadata-setter-order/{s}"), (order.0, order.1 + 10_000 + k), || format!("Metadata setters called in order {perm:?} (0 title, 1 creation time, 2 language; decoy values first: {decoy}): {d}"), || json!({"engine": "E2-c18-setter-order", "perm": perm, "decoy": decoy, "audio": audio}));
                }
            }
        }
    }
}

enum Item {
    Days(i64, i64, Vec<u64>),
    SpecialDays(i64, i64),
    Langs(u32, u32),
    Combos,
}

fn days_from_civil(y: i64, m: u32, d: u32) -> i64 {
    // inverse of civil_from_days, used only to pick calendar-special days
    let y2 = if m <= 2 { y - 1 } else { y };
    let era = y2.div_euclid(400);
    let yoe = y2.rem_euclid(400);
    let mp = (m as i64 + 9) % 12;
    let doy = (153 * mp + 2) / 5 + d as i64 - 1;
    let doe = yoe * 365 + yoe / 4 - yoe / 100 + doy;
    era * 146_097 + doe - 719_468
}

pub fn check(ctx: &Ctx) -> i32 {
    let last_day = days_from_civil(9999, 12, 31);
    let mut items = vec![];
    let secs: Vec<u64> = if ctx.thorough { vec![0, 86399] } else { vec![0, 43200, 86399] };
    let dense_to = if ctx.thorough { last_day } else { days_from_civil(2110, 12, 31) };
    let mut d = 0i64;
    while d <= dense_to {
        let e = (d + 19_999).min(dense_to);
        items.push(Item::Days(d, e, secs.clone()));
        d = e + 1;
    }
    if !ctx.thorough {
        let mut y = 2111i64;
        while y <= 9999 {
            items.push(Item::SpecialDays(y, (y + 499).min(9999)));
            y += 500;
        }
    }
    for c in 0..26u32 {
        items.push(Item::Langs(c, c + 1));
    }
    items.push(Item::Combos);
    let base = Cfg::basic(VCodec::H264, None, true);
    let tally = par_items(&items, ctx.seed, |idx, it, t| match it {
        Item::Days(a, b, secs) => {
            for day in *a..=*b {
                for (k, s) in secs.iter().enumerate() {
                    let mut cfg = base.clone();
                    cfg.meta = Some(MMeta { title: None, time: Some(day as u64 * 86400 + s), lang: None });
                    judge(&cfg, 0, true, false, (idx as u64, (day - a) as u64 * 4 + k as u64), t);
                }
            }
        }
        Item::SpecialDays(y0, y1) => {
            let mut k = 0;
            for y in *y0..=*y1 {
                for (m, d) in [(1u32, 1u32), (2, 28), (3, 1), (12, 31)] {
                    let mut days = vec![days_from_civil(y, m, d)];
                    if (m, d) == (2, 28) {
                        days.push(days[0] + 1); // Feb 29 or Mar 1
                    }
                    for day in days {
                        for s in [0u64, 86399] {
                            let mut cfg = base.clone();
                            cfg.meta = Some(MMeta { title: None, time: Some(day as u64 * 86400 + s), lang: None });
                            k += 1;
                            judge(&cfg, 0, true, false, (idx as u64, k), t);
                        }
                    }
                }
            }
        }
        Item::Langs(a, b) => {
            let mut k = 0;
            for c1 in *a..*b {
                for c2 in 0..26u32 {
                    for c3 in 0..26u32 {
                        let code: String = [c1, c2, c3].iter().map(|&c| (b'a' + c as u8) as char).collect();
                        // audio track present so that "every track" is exercised
                        let mut cfg = Cfg::basic(VCodec::H264, Some(if c3 % 2 == 0 { ACodec::AacLc } else { ACodec::Opus }), c2 % 2 == 0);
                        cfg.meta = Some(MMeta { title: None, time: None, lang: Some(code) });
                        k += 1;
                        judge(&cfg, 0, true, false, (idx as u64, k), t);
                    }
                }
            }
        }
        Item::Combos => {
            judge_chains((idx as u64, 50_000_000), t);
            judge_metadata_setter_orders((idx as u64, 60_000_000), t);
            let titles: Vec<Option<String>> = vec![None, Some(String::new()), Some("a".into()), Some("é".into()), Some("日本".into()), Some("\u{1d11e}".into()), Some("x".repeat(255)), Some("y".repeat(256)), Some("z".repeat(70000)), Some("nul\0inside".into()), Some("  padded \n".into()), Some(" ".into()), Some("\ttab".into())];
            // titles that spell the four-character codes of the boxes around them (writers that
            // search their own output for a code, or patch a box in place, find the title instead)
            let mut titles = titles;
            for code in ["stco", "co64", "stsz", "stsc", "stts", "stss", "ctts", "mdat", "moov", "trak", "udta", "meta", "ilst", "data", "mvhd", "tkhd", "mdhd", "free"] {
                titles.push(Some(format!("How {code} tables work: a talk")));
                titles.push(Some(format!("{code}\0\0\0\u{1}\0\0\0\u{2}")));
            }
            let times = [None, Some(0u64), Some(951_782_400), Some(4_102_444_799)];
            let langs: Vec<(Option<String>, bool)> = vec![(None, true), (Some("eng".into()), true), (Some("zzz".into()), true), (Some("".into()), false), (Some("e".into()), false), (Some("en".into()), false), (Some("ENG".into()), false), (Some("e1g".into()), false), (Some("éng".into()), false), (Some("engl".into()), false)];
            let mut k = 0;
            // long tracks (2^31 < duration < 2^32 ticks) with every language value and two titles
            for (lang, wf) in &langs {
                for title in [None, Some("long".to_string())] {
                    for (codec, audio, fast) in [(VCodec::H264, None, true), (VCodec::H265, Some(ACodec::AacLc), false), (VCodec::Av1, Some(ACodec::Opus), true), (VCodec::Vp9, None, false)] {
                        let mut cfg = Cfg::basic(codec, audio, fast);
                        cfg.meta = Some(MMeta { title: title.clone(), time: Some(951_782_400), lang: lang.clone() });
                        k += 1;
                        judge(&cfg, LONG + 3, *wf, true, (idx as u64, 9_000_000 + k), t);
                    }
                }
            }
            for title in &titles {
                for time in &times {
                    for (lang, wf) in &langs {
                        for nframes in 0..=2usize {
                            for (codec, audio, fast) in [(VCodec::H264, None, true), (VCodec::H265, Some(ACodec::AacLc), false), (VCodec::Av1, Some(ACodec::Opus), true), (VCodec::Vp9, None, false)] {
                                let mut cfg = Cfg::basic(codec, audio, fast);
                                cfg.meta = Some(MMeta { title: title.clone(), time: *time, lang: lang.clone() });
                                k += 1;
                                judge(&cfg, nframes, *wf, true, (idx as u64, k), t);
                                if title.is_none() && time.is_none() && lang.is_none() {
                                    // Metadata::default() and no metadata at all
                                    cfg.meta = None;
                                    judge(&cfg, nframes, true, false, (idx as u64, k + 1_000_000), t);
                                }
                            }
                        }
                    }
                }
            }
        }
    });
    let (y, m, d) = civil_from_days(dense_to);
    finish(
        ctx,
        &tally,
        Meta {
            level: "exploration",
            rule: format!("creation times: every day from 1970-01-01 to {y:04}-{m:02}-{d:02} at seconds-of-day {secs:?}{}; all 17576 lower-case three-letter language codes on A/V files (every track's mdhd); the product of 49 titles (empty, 1-4 byte scalars, 255/256/70000 bytes, embedded NUL, surrounding and only whitespace, and 36 titles spelling the four-character code of a box of the file, in prose or followed by bytes that read as a table header) x 4 creation times x 10 language values (3 well-formed, 7 malformed - for those only well-formedness is demanded) x 0-2 frames x 4 codec/audio/layout configurations (and, for every language value, three frames 15 000 s apart: tracks longer than 2^31 ticks), each also compared with the same history without metadata (reader-reduced movie equal, chunk offsets shifted uniformly by the size of udta in the fast-start layout and not at all otherwise). Builder chains (with_metadata(title) then set_create_time / set_language in either order) must equal the complete Metadata value; Metadata values assembled through the chaining setters in every permutation of every subset (each setter also called twice, a decoy first) hold what the last call of each setter said. Reference calendar: civil-from-days, written independently. Distinct by (udta bytes, packed language).", if ctx.thorough { "" } else { ", plus Jan 1 / Feb 28 / Feb 29 or Mar 1 / Mar 1 / Dec 31 of every year to 9999 at 0 and 86399" }),
            bound: if ctx.thorough { "every day of years 1970-9999".into() } else { "every day 1970-2110, calendar-special days to 9999".to_string() },
            exhaustive: true,
            assumptions: vec!["termination for creation times up to u64::MAX is C12's child-process check".into()],
            extra: json!({}),
        },
    )
}

pub fn replay(case: &Value) -> i32 {
    let cfg: Cfg = serde_json::from_value(case["cfg"].clone()).unwrap();
    let mut t = Tally::default();
    judge(&cfg, case["frames"].as_u64().unwrap_or(0) as usize, case["well_formed_lang"].as_bool().unwrap_or(true), true, (0, 0), &mut t);
    println!("metadata: {:?}", cfg.meta);
    if t.viol.is_empty() {
        println!("replay: property C18 holds for this case");
        0
    } else {
        for (s, f) in &t.viol {
            println!("replay: VIOLATION {s}: {}", f.detail);
        }
        1
    }
}
