//! C14 - re-framing is exact (Annex B -> length-prefixed NAL units; ADTS -> raw AAC).
//! Exhaustive small-scope enumeration of byte strings plus constructive unit lists.

use crate::run::run_finished;
use muxide::codec::common::AnnexBNalIter;
use muxide::codec::h264::annexb_to_avcc;
use muxide::codec::h265::hevc_annexb_to_hvcc;
use oracle::frames::{video_frame, ACodec, AdtsHdr, VCodec};
use oracle::model::{hex, Bytes, Cfg, Op, T};
use oracle::reader::parse_movie;
use oracle::refmodel::{adts_parse, annexb_to_lp, annexb_units, parse_lp, Adts};
use oracle::report::{finish, guarded, par_items, Ctx, Meta, Tally};
use serde_json::{json, Value};

fn judge_string(d: &[u8], order: (u64, u64), t: &mut Tally) {
    t.evaluations += 1;
    let want_units = annexb_units(d);
    let want = annexb_to_lp(d);
    let got = guarded(|| {
        let it: Vec<Vec<u8>> = AnnexBNalIter::new(d).map(|u| u.to_vec()).collect();
        (it, annexb_to_avcc(d), hevc_annexb_to_hvcc(d))
    });
    let case = || json!({"engine": "E2-annexb", "input": hex(d)});
    match got {
        Err(p) => t.violation("C14/annexb/panic", order, || format!("input {} panicked: {p}", hex(d)), case),
        Ok((it, avcc, hvcc)) => {
            t.outcome(oracle::report::h64(&avcc) ^ (it.len() as u64) << 56);
            if it.iter().map(|v| v.as_slice()).collect::<Vec<_>>() != want_units {
                t.violation("C14/annexb/iterator-units", order, || format!("input {}: iterator yields {:?}, the units between start codes are {:?}", hex(d), it.iter().map(|u| hex(u)).collect::<Vec<_>>(), want_units.iter().map(|u| hex(u)).collect::<Vec<_>>()), case);
            }
            for (name, out) in [("avcc", &avcc), ("hvcc", &hvcc)] {
                if parse_lp(out).is_none() {
                    t.violation(&format!("C14/annexb/{name}-does-not-parse"), order, || format!("input {}: output {} does not parse to its end", hex(d), hex(out)), case);
                } else if out != &want {
                    t.violation(&format!("C14/annexb/{name}-payloads"), order, || format!("input {}: output {}, expected {}", hex(d), hex(out), hex(&want)), case);
                }
            }
        }
    }
}

/// all strings over `alpha` with the given fixed prefix, up to total length `max`
fn enumerate(alpha: &[u8], prefix: &[u8], max: usize, f: &mut impl FnMut(&[u8])) {
    fn rec(cur: &mut Vec<u8>, alpha: &[u8], max: usize, f: &mut impl FnMut(&[u8])) {
        f(cur);
        if cur.len() == max {
            return;
        }
        for &a in alpha {
            cur.push(a);
            rec(cur, alpha, max, f);
            cur.pop();
        }
    }
    let mut cur = prefix.to_vec();
    rec(&mut cur, alpha, max, f);
}

struct StrItem {
    alpha: &'static [u8],
    prefix: Vec<u8>,
    max: usize,
}

const A3: &[u8] = &[0x00, 0x01, 0x02];
const A5: &[u8] = &[0x00, 0x01, 0x03, 0x65, 0xff];

fn constructive() -> Vec<Vec<u8>> {
    let bodies: Vec<Vec<u8>> = vec![vec![0x65], vec![0x41, 0x00], vec![0x67, 0x00, 0x00], vec![0x68, 0x00, 0x00, 0x03, 0x01], vec![]];
    let leads: Vec<Vec<u8>> = vec![vec![], vec![0x09], vec![0x00], vec![0x00, 0x00]];
    let mut out = vec![];
    // all lists of <= 3 units over the bodies (incl. an empty unit) x start code per unit
    let mut lists: Vec<Vec<usize>> = vec![vec![]];
    let mut frontier: Vec<Vec<usize>> = vec![vec![]];
    for _ in 0..3 {
        let mut next = vec![];
        for l in &frontier {
            for b in 0..bodies.len() {
                let mut l2 = l.clone();
                l2.push(b);
                next.push(l2);
            }
        }
        lists.extend(next.iter().cloned());
        frontier = next;
    }
    for l in &lists {
        for scmask in 0..(1u32 << l.len()) {
            for lead in &leads {
                for trail in 0..3usize {
                    let mut s = lead.clone();
                    for (i, &b) in l.iter().enumerate() {
                        if (scmask >> i) & 1 == 1 {
                            s.extend_from_slice(&[0, 0, 0, 1]);
                        } else {
                            s.extend_from_slice(&[0, 0, 1]);
                        }
                        s.extend_from_slice(&bodies[b]);
                    }
                    s.extend(std::iter::repeat(0u8).take(trail));
                    out.push(s);
                }
            }
        }
    }
    out
}

/// the stored samples of a keyframe and of `data` submitted as the second (delta) video frame;
/// `builder_ps`: the builder was also handed out-of-band parameter sets (with_sps / with_pps /
/// with_vps, which only the fragmented entry point reads) - the stored samples are the same
fn stored_frames(codec: VCodec, data: &[u8], builder_ps: bool) -> Result<Option<(Vec<u8>, Vec<u8>, Vec<u8>)>, String> {
    let cfg = Cfg::basic(codec, None, false);
    let (k, _) = video_frame(codec, true, true, 1, 4);
    let ops = vec![Op::WV { pts: T(0.0), data: Bytes::new(k.clone()), key: true }, Op::WV { pts: T(0.5), data: Bytes::new(data.to_vec()), key: false }, Op::FinishInPlace];
    let sink = crate::run::RecSink::default();
    let st = sink.0.clone();
    let mut b = crate::run::builder(&cfg, sink);
    if builder_ps {
        b = match codec {
            VCodec::H265 => b.with_vps(oracle::frames::h265_vps(1)).with_sps(oracle::frames::h265_sps(1)).with_pps(oracle::frames::h265_pps(1)),
            _ => b.with_sps(oracle::frames::h264_sps(1)).with_pps(oracle::frames::h264_pps(1)),
        };
    }
    let run = oracle::report::guarded(|| {
        let mut m = b.build().ok();
        ops.iter().map(|o| crate::run::apply(&mut m, o).is_ok()).collect::<Vec<bool>>()
    });
    let results = run.map_err(|e| e.to_string())?;
    if !results[1] || !results[2] {
        return Ok(None);
    }
    let bytes = st.borrow().bytes.clone();
    let m = parse_movie(&bytes, "prog");
    let s = m.video().and_then(|t| t.samples().ok()).ok_or("unparsable output")?;
    if s.len() != 2 {
        return Err(format!("{} samples for 2 accepted frames", s.len()));
    }
    let cut = |i: usize| bytes[s[i].offset as usize..s[i].offset as usize + s[i].size as usize].to_vec();
    Ok(Some((cut(0), cut(1), k)))
}

fn judge_through_muxer(d: &[u8], order: (u64, u64), t: &mut Tally) {
    if d.is_empty() {
        return;
    }
    for codec in [VCodec::H264, VCodec::H265] {
        for builder_ps in [false, true] {
            t.evaluations += 1;
            t.count("strings_through_muxer", 1);
            let case = || json!({"engine": "E2-annexb-mux", "input": hex(d), "codec": codec, "builder_ps": builder_ps});
            match stored_frames(codec, d, builder_ps) {
                Err(e) => t.violation("C14/mux/panic-or-unparsable", order, || format!("{codec:?} input {} (builder parameter sets: {builder_ps}): {e}", hex(d)), case),
                Ok(None) => t.count("mux_rejected", 1),
                Ok(Some((first, got, key))) => {
                    let want = annexb_to_lp(d);
                    if got != want {
                        t.violation("C14/mux/stored-sample", order, || format!("{codec:?} input {} (builder parameter sets: {builder_ps}): stored {}, expected {}", hex(d), hex(&got), hex(&want)), case);
                    }
                    // the keyframe in front (parameter sets in band) is a sample like any other
                    let want0 = annexb_to_lp(&key);
                    if first != want0 {
                        t.violation("C14/mux/stored-keyframe", order, || format!("{codec:?} (builder parameter sets: {builder_ps}): the keyframe {} is stored as {}, expected {}", hex(&key), hex(&first), hex(&want0)), case);
                    }
                }
            }
        }
    }
}

struct AdtsItem {
    protected: bool,
    variant: usize,
    fl_from: usize,
    fl_to: usize,
}

fn adts_header(variant: usize, protected: bool, fl: usize) -> AdtsHdr {
    let mut h = AdtsHdr { protection_absent: !protected, frame_length: fl as u16, ..Default::default() };
    match variant {
        0 => {}
        1 => {
            h.profile = 0;
            h.sfi = 0;
            h.chan = 1;
            h.fullness = 0;
        }
        _ => {
            h.profile = 3;
            h.sfi = 12;
            h.private = true;
            h.chan = 7;
            h.blocks = 3;
        }
    }
    h
}

fn judge_adts(h: &AdtsHdr, buflen: usize, order: (u64, u64), t: &mut Tally) {
    let mut f = h.bytes();
    let hl = f.len();
    while f.len() < buflen {
        let i = f.len();
        f.push(0x10 + ((i * 7 + h.frame_length as usize) % 0xe0) as u8);
    }
    f.truncate(buflen.max(0));
    t.evaluations += 1;
    let cfg = Cfg::basic(VCodec::H264, Some(ACodec::AacLc), buflen % 2 == 0);
    let (k, _) = video_frame(VCodec::H264, true, true, 1, 4);
    let ops = vec![Op::WV { pts: T(0.0), data: Bytes::new(k), key: true }, Op::WA { pts: T(0.0), data: Bytes::new(f.clone()) }];
    let ex = run_finished(&cfg, &ops);
    let case = || json!({"engine": "E2-adts", "frame": hex(&f)});
    if let Some((i, m)) = ex.panicked() {
        t.violation("C14/adts/panic", order, || format!("call {i} panicked for frame_length {} buffer {buflen}: {m}", h.frame_length), case);
        return;
    }
    let refv = adts_parse(&f);
    if !ex.results[1].is_ok() {
        t.count("adts_rejected", 1);
        if let Adts::Valid { header_len, frame_len } = refv {
            if frame_len > header_len {
                t.count("adts_rejected_although_reference_valid", 1);
            }
        }
        return;
    }
    t.count("adts_accepted", 1);
    t.outcome(oracle::report::h64(&ex.bytes));
    let m = parse_movie(&ex.bytes, "prog");
    let Some(s) = m.audio().and_then(|t| t.samples().ok()) else {
        t.violation("C14/adts/unparsable", order, || "audio track missing or unexpandable".into(), case);
        return;
    };
    let fl = h.frame_length as usize;
    let want: &[u8] = if fl <= f.len() && hl <= fl { &f[hl..fl] } else { &[] };
    if s.len() != 1 {
        t.violation("C14/adts/sample-count", order, || format!("{} audio samples for one accepted frame", s.len()), case);
        return;
    }
    let got = &ex.bytes[s[0].offset as usize..s[0].offset as usize + s[0].size as usize];
    if got != want {
        t.violation("C14/adts/stored-payload", order, || format!("frame_length {fl}, header {hl}, buffer {buflen}: stored {} bytes {}.., expected {} bytes {}..", got.len(), hex(&got[..got.len().min(8)]), want.len(), hex(&want[..want.len().min(8)])), case);
    }
    if !matches!(refv, Adts::Valid { .. }) {
        t.violation("C14/adts/accepted-invalid-frame", order, || format!("frame accepted although {refv:?}"), case);
    }
}

pub fn check(ctx: &Ctx) -> i32 {
    let (l3, l5) = if ctx.thorough { (15, 9) } else { (13, 8) };
    let mut items = vec![];
    for (alpha, max) in [(A3, l3), (A5, l5)] {
        // split by 3-symbol prefixes; shorter strings by one extra item
        items.push(StrItem { alpha, prefix: vec![], max: 2 });
        for &a in alpha {
            for &b in alpha {
                for &c in alpha {
                    items.push(StrItem { alpha, prefix: vec![a, b, c], max });
                }
            }
        }
    }
    let mux_len = if ctx.thorough { 9 } else { 7 };
    let mut tally = par_items(&items, ctx.seed, |idx, it, t| {
        let mut k = 0u64;
        enumerate(it.alpha, &it.prefix, it.max, &mut |s| {
            k += 1;
            judge_string(s, (idx as u64, k), t);
            if it.alpha.len() == 3 && s.len() <= mux_len {
                judge_through_muxer(s, (idx as u64, k), t);
            }
        });
    });
    let cons = constructive();
    let ncons = cons.len();
    let chunks: Vec<&[Vec<u8>]> = cons.chunks(500).collect();
    let t2 = par_items(&chunks, ctx.seed, |idx, ch, t| {
        for (k, s) in ch.iter().enumerate() {
            judge_string(s, (10_000 + idx as u64, k as u64), t);
            judge_through_muxer(s, (10_000 + idx as u64, k as u64), t);
        }
    });
    tally.merge(t2);

    // scaling family: a first unit of every length 1..=N (three fillers: no zero and no one byte;
    // a zero every 7th byte; a one every 5th byte) x both start-code lengths for either unit x
    // 0-2 bytes of leading junk, followed by a short second unit. Block-wise or word-wise
    // scanners have their thresholds far beyond the short strings enumerated above.
    let scale_n = if ctx.thorough { 1100 } else { 300 };
    let lens: Vec<usize> = (1..=scale_n).collect();
    let t2b = par_items(&lens, ctx.seed, |idx, &l, t| {
        let mut k = 0u64;
        for filler in 0..3 {
            let body: Vec<u8> = (0..l)
                .map(|i| match filler {
                    0 => 0x41,
                    1 => if i % 7 == 6 { 0x00 } else { 0x42 },
                    _ => if i % 5 == 4 { 0x01 } else { 0x43 },
                })
                .collect();
            for sc1 in [3usize, 4] {
                for sc2 in [3usize, 4] {
                    for junk in 0..3usize {
                        let mut s = vec![0x09; junk];
                        s.extend(std::iter::repeat(0u8).take(sc1 - 1));
                        s.push(1);
                        s.extend(&body);
                        s.extend(std::iter::repeat(0u8).take(sc2 - 1));
                        s.push(1);
                        s.extend([0x68, 0xee, 0x3c]);
                        k += 1;
                        t.count("scaling_strings", 1);
                        judge_string(&s, (15_000 + idx as u64, k), t);
                        if junk == 0 {
                            judge_through_muxer(&s, (15_000 + idx as u64, k), t);
                        }
                    }
                }
            }
        }
    });
    tally.merge(t2b);

    // unit-count scaling: access units of many short units (multi-slice pictures, SEI runs). Every
    // start-code assignment for up to 8 units, four regular patterns up to 40 units; unit bodies
    // of 1, 2 or 1-3 bytes; with and without leading junk and trailing zeros. Output-size
    // estimates and per-unit bookkeeping have their thresholds in the number of units.
    let counts: Vec<usize> = (1..=40).collect();
    let t2c = par_items(&counts, ctx.seed, |idx, &n, t| {
        let mut k = 0u64;
        let masks: Vec<u64> = if n <= 8 { (0..(1u64 << n)).collect() } else { vec![0, u64::MAX, 0xaaaa_aaaa_aaaa_aaaa, 1] };
        for &mask in &masks {
            for bodies in 0..3usize {
                for junk in [0usize, 1] {
                    for trail in [0usize, 2] {
                        let mut s = vec![0x09; junk];
                        for i in 0..n {
                            if (mask >> i) & 1 == 1 {
                                s.extend_from_slice(&[0, 0, 0, 1]);
                            } else {
                                s.extend_from_slice(&[0, 0, 1]);
                            }
                            let len = match bodies {
                                0 => 1,
                                1 => 2,
                                _ => 1 + i % 3,
                            };
                            s.extend((0..len).map(|j| 0x41 + ((i + j) % 0x30) as u8));
                        }
                        s.extend(std::iter::repeat(0u8).take(trail));
                        k += 1;
                        t.count("unit_count_strings", 1);
                        judge_string(&s, (17_000 + idx as u64, k), t);
                        if junk == 0 {
                            judge_through_muxer(&s, (17_000 + idx as u64, k), t);
                        }
                    }
                }
            }
        }
    });
    tally.merge(t2c);

    // ADTS: every 13-bit frame length x protection x buffer length x header-field variant
    let mut aitems = vec![];
    for protected in [false, true] {
        for variant in 0..3 {
            for c in 0..16 {
                aitems.push(AdtsItem { protected, variant, fl_from: c * 512, fl_to: (c + 1) * 512 });
            }
        }
    }
    let t3 = par_items(&aitems, ctx.seed, |idx, it, t| {
        for fl in it.fl_from..it.fl_to {
            let h = adts_header(it.variant, it.protected, fl);
            for (j, bl) in [fl.wrapping_sub(1), fl, fl + 1, fl + 9].into_iter().enumerate() {
                if bl > 9000 {
                    continue;
                }
                judge_adts(&h, bl, (20_000 + idx as u64, (fl * 4 + j) as u64), t);
            }
        }
    });
    tally.merge(t3);
    // two ADTS frames in one stream: every combination of (protection, header variant, payload
    // length) for the first and the second frame; per-stream state must not leak into a frame
    let mut pairs = vec![];
    for p1 in [false, true] {
        for p2 in [false, true] {
            for v1 in 0..3usize {
                for v2 in 0..3usize {
                    for (l1, l2) in [(5usize, 13usize), (13, 5), (300, 2)] {
                        // the second frame 0.02 s later, or on the first frame's tick (audio
                        // timestamps need only be non-decreasing: still one sample per frame)
                        for same_tick in [false, true] {
                            pairs.push((p1, p2, v1, v2, l1, l2, same_tick));
                        }
                    }
                }
            }
        }
    }
    let t4 = par_items(&pairs, ctx.seed, |idx, &(p1, p2, v1, v2, l1, l2, same_tick), t| {
        t.evaluations += 1;
        let mk = |prot: bool, var: usize, len: usize, seed: u8| {
            let hl = if prot { 9 } else { 7 };
            let mut f = adts_header(var, prot, hl + len).bytes();
            f.extend((0..len).map(|i| seed.wrapping_add((i * 5) as u8) | 0x10));
            f
        };
        let (f1, f2) = (mk(p1, v1, l1, 0xa0), mk(p2, v2, l2, 0xb0));
        let cfg = Cfg::basic(VCodec::H264, Some(ACodec::AacLc), (idx / 2) % 2 == 0);
        let (k, _) = video_frame(VCodec::H264, true, true, 1, 4);
        let ops = vec![Op::WV { pts: T(0.0), data: Bytes::new(k), key: true }, Op::WA { pts: T(0.0), data: Bytes::new(f1.clone()) }, Op::WA { pts: T(if same_tick { 0.0 } else { 0.02 }), data: Bytes::new(f2.clone()) }];
        let ex = run_finished(&cfg, &ops);
        let case = || json!({"engine": "E2-adts-pair", "first": hex(&f1), "second": hex(&f2), "same_tick": same_tick});
        let order = (30_000 + idx as u64, 0);
        if let Some((i, m)) = ex.panicked() {
            t.violation("C14/adts-pair/panic", order, || format!("call {i}: {m}"), case);
            return;
        }
        if !ex.results.iter().all(|r| r.is_ok()) {
            t.count("adts_pair_rejected", 1);
            return;
        }
        t.outcome(oracle::report::h64(&ex.bytes));
        let m = parse_movie(&ex.bytes, "prog");
        let Some(s) = m.audio().and_then(|t| t.samples().ok()) else {
            t.violation("C14/adts-pair/unparsable", order, || "audio track missing".into(), case);
            return;
        };
        for (i, (f, prot)) in [(&f1, p1), (&f2, p2)].iter().enumerate() {
            let hl = if *prot { 9 } else { 7 };
            let want = &f[hl..];
            let got = s.get(i).map(|l| &ex.bytes[l.offset as usize..(l.offset as usize + l.size as usize).min(ex.bytes.len())]);
            if got != Some(want) {
                t.violation("C14/adts-pair/stored-payload", order, || format!("frame {i} (protected {prot}, after a frame with protected {}): stored {:?}.., expected {} bytes {}..", if i == 1 { p1 } else { *prot }, got.map(|g| hex(&g[..g.len().min(8)])), want.len(), hex(&want[..want.len().min(8)])), case);
            }
        }
    });
    tally.merge(t4);
    tally.sample(3, || json!({"annexb_input": "000001650000000141", "expected_units": ["65", "41"]}));
    finish(
        ctx,
        &tally,
        Meta {
            level: "exploration",
            rule: format!("every byte string of length <= {l3} over {{00,01,02}} and <= {l5} over {{00,01,03,65,FF}} through AnnexBNalIter, annexb_to_avcc and hevc_annexb_to_hvcc, compared with a reference splitter written from the statement (occurrences of 00 00 01, each absorbing one preceding unconsumed 00); every string of length <= {mux_len} over {{00,01,02}} additionally submitted as a delta frame to an H.264 and an H.265 muxer (each also built with out-of-band parameter sets on the builder) and both stored samples - the keyframe with its in-band parameter sets and the string - read back; {ncons} constructive inputs (all lists of <= 3 units over bodies {{1 byte, ending 00, ending 00 00, containing 00 00 03, empty}} x 3/4-byte start code per unit x leading {{none, 09, 00, 00 00}} x 0-2 trailing zeros); a scaling family (first unit of every length 1..={scale_n} x 3 fillers x 3/4-byte start codes x 0-2 junk bytes, through the converters and the muxers); a unit-count family (1..=40 short units; every 3/4-byte start-code assignment up to 8 units, four regular patterns beyond; 3 body-length patterns; with/without leading junk and trailing zeros); ADTS: all 8192 frame lengths x protection flag x buffer length {{fl-1, fl, fl+1, fl+9}} x 3 header-field variants through write_audio + finish, stored sample read back; 216 pairs of ADTS frames in one stream (protection x header variant x length for either frame x the second frame later or on the same tick). Distinct by output bytes."),
            bound: format!("strings <= {l3} / {l5} bytes; unit lengths 1..={scale_n}; ADTS exhaustive in frame length"),
            exhaustive: true,
            assumptions: vec!["the reference splitter (oracle/src/refmodel.rs) is the statement's definition".into()],
            extra: json!({}),
        },
    )
}

pub fn replay(case: &Value) -> i32 {
    let mut t = Tally::default();
    match case["engine"].as_str() {
        Some("E2-annexb") => {
            let d = oracle::model::unhex(case["input"].as_str().unwrap_or("")).unwrap_or_default();
            judge_string(&d, (0, 0), &mut t);
            println!("input {}: reference units {:?}, expected output {}", hex(&d), annexb_units(&d).iter().map(|u| hex(u)).collect::<Vec<_>>(), hex(&annexb_to_lp(&d)));
        }
        Some("E2-annexb-mux") => {
            let d = oracle::model::unhex(case["input"].as_str().unwrap_or("")).unwrap_or_default();
            judge_through_muxer(&d, (0, 0), &mut t);
        }
        Some("E2-adts") => {
            let f = oracle::model::unhex(case["frame"].as_str().unwrap_or("")).unwrap_or_default();
            // rebuild header fields is unnecessary: submit the recorded frame as is
            let cfg = Cfg::basic(VCodec::H264, Some(ACodec::AacLc), false);
            let (k, _) = video_frame(VCodec::H264, true, true, 1, 4);
            let ops = vec![Op::WV { pts: T(0.0), data: Bytes::new(k), key: true }, Op::WA { pts: T(0.0), data: Bytes::new(f.clone()) }];
            let ex = run_finished(&cfg, &ops);
            println!("frame {} -> {:?}; reference {:?}", hex(&f[..f.len().min(16)]), ex.results.iter().map(|r| r.brief()).collect::<Vec<_>>(), adts_parse(&f));
            return if ex.panicked().is_some() { 1 } else { 0 };
        }
        _ => return 2,
    }
    if t.viol.is_empty() {
        println!("replay: property C14 holds for this case");
        0
    } else {
        for (s, f) in &t.viol {
            println!("replay: VIOLATION {s}: {}", f.detail);
        }
        1
    }
}
