//! E3 - sink fault-schedule explorer (C13). The sink answers every `write` call from a script;
//! all single failure points, all byte budgets, and all schedules with a bounded number of
//! deviations from "accept everything" are enumerated for representative histories.

use crate::run::{apply, builder};
use oracle::frames::{ACodec, VCodec};
use oracle::hist::{self, HistSpec, PtsMode};
use oracle::model::{brief_ops, Bytes, Cfg, Meta as MMeta, Op, Res, T};
use oracle::report::{finish, guarded, par_items, Ctx, Fnv, Meta, Tally};
use serde::{Deserialize, Serialize};
use serde_json::{json, Value};
use std::cell::RefCell;
use std::io::{self, ErrorKind, Write};
use std::rc::Rc;

#[derive(Clone, Copy, Debug, PartialEq, Eq, Serialize, Deserialize)]
pub enum Ans {
    All,
    One,
    Half,
    Interrupted,
    Zero,
    ErrOther,
    ErrBrokenPipe,
    ErrOutOfMemory,
    ErrWouldBlock,
    /// any other stable `std::io::ErrorKind` (index into `OTHER_KINDS`)
    ErrKind(u8),
}

/// every stable `ErrorKind` a sink may legitimately return besides the four named above
/// (`Interrupted` is the benign answer, not a failure)
pub const OTHER_KINDS: [ErrorKind; 35] = [
    ErrorKind::NotFound,
    ErrorKind::PermissionDenied,
    ErrorKind::ConnectionRefused,
    ErrorKind::ConnectionReset,
    ErrorKind::HostUnreachable,
    ErrorKind::NetworkUnreachable,
    ErrorKind::ConnectionAborted,
    ErrorKind::NotConnected,
    ErrorKind::AddrInUse,
    ErrorKind::AddrNotAvailable,
    ErrorKind::NetworkDown,
    ErrorKind::AlreadyExists,
    ErrorKind::NotADirectory,
    ErrorKind::IsADirectory,
    ErrorKind::DirectoryNotEmpty,
    ErrorKind::ReadOnlyFilesystem,
    ErrorKind::StaleNetworkFileHandle,
    ErrorKind::InvalidInput,
    ErrorKind::InvalidData,
    ErrorKind::TimedOut,
    ErrorKind::WriteZero,
    ErrorKind::StorageFull,
    ErrorKind::NotSeekable,
    ErrorKind::QuotaExceeded,
    ErrorKind::FileTooLarge,
    ErrorKind::ResourceBusy,
    ErrorKind::ExecutableFileBusy,
    ErrorKind::Deadlock,
    ErrorKind::CrossesDevices,
    ErrorKind::TooManyLinks,
    ErrorKind::InvalidFilename,
    ErrorKind::ArgumentListTooLong,
    ErrorKind::Unsupported,
    ErrorKind::UnexpectedEof,
    ErrorKind::Other,
];

impl Ans {
    fn fatal(self) -> bool {
        matches!(self, Ans::Zero | Ans::ErrOther | Ans::ErrBrokenPipe | Ans::ErrOutOfMemory | Ans::ErrWouldBlock | Ans::ErrKind(_))
    }
}

#[derive(Clone, Debug, Default, Serialize, Deserialize, PartialEq)]
pub struct Script {
    /// answer for the k-th write call (0-based); calls beyond the script are accepted in full
    pub answers: Vec<(usize, Ans)>,
    /// Some(n): after n accepted bytes in total every further call fails (short write first)
    pub budget: Option<usize>,
}

#[derive(Default, Debug)]
pub struct FaultState {
    pub accepted: Vec<u8>,
    pub calls: usize,
    /// (api call index, requested, answer)
    pub log: Vec<(u32, usize, String)>,
    pub cur_op: u32,
    pub fatal_answers: usize,
}

#[derive(Clone)]
pub struct FaultSink {
    pub st: Rc<RefCell<FaultState>>,
    pub script: Rc<Script>,
}

impl Write for FaultSink {
    fn write(&mut self, buf: &[u8]) -> io::Result<usize> {
        let mut s = self.st.borrow_mut();
        let k = s.calls;
        s.calls += 1;
        let op = s.cur_op;
        let mut ans = self.script.answers.iter().find(|(i, _)| *i == k).map(|x| x.1).unwrap_or(Ans::All);
        let mut limit = buf.len();
        if let Some(b) = self.script.budget {
            let left = b.saturating_sub(s.accepted.len());
            if left == 0 {
                ans = Ans::ErrOther;
            } else {
                limit = limit.min(left);
            }
        }
        let r = match ans {
            Ans::All => Ok(limit),
            Ans::One => Ok(limit.min(1)),
            Ans::Half => Ok(limit.min((buf.len() + 1) / 2)),
            Ans::Interrupted => Err(io::Error::new(ErrorKind::Interrupted, "interrupted")),
            Ans::Zero => Ok(0),
            Ans::ErrOther => Err(io::Error::other("injected failure")),
            Ans::ErrBrokenPipe => Err(io::Error::new(ErrorKind::BrokenPipe, "injected broken pipe")),
            Ans::ErrOutOfMemory => Err(io::Error::new(ErrorKind::OutOfMemory, "injected oom")),
            Ans::ErrWouldBlock => Err(io::Error::new(ErrorKind::WouldBlock, "injected would-block")),
            Ans::ErrKind(i) => Err(io::Error::new(OTHER_KINDS[i as usize % OTHER_KINDS.len()], "injected failure of this kind")),
        };
        if ans.fatal() && !buf.is_empty() {
            s.fatal_answers += 1;
        }
        if let Ok(n) = r {
            s.accepted.extend_from_slice(&buf[..n]);
        }
        s.log.push((op, buf.len(), format!("{ans:?}")));
        r
    }
    fn flush(&mut self) -> io::Result<()> {
        Ok(())
    }
}

#[derive(Debug)]
pub struct FaultRun {
    pub results: Vec<Res>,
    pub accepted: Vec<u8>,
    pub log: Vec<(u32, usize, String)>,
    pub fatal_answers: usize,
}

pub fn run_faulty(cfg: &Cfg, ops: &[Op], script: &Script) -> FaultRun {
    let st = Rc::new(RefCell::new(FaultState::default()));
    let sink = FaultSink { st: st.clone(), script: Rc::new(script.clone()) };
    let mut m = match guarded(|| builder(cfg, sink).build()) {
        Ok(Ok(m)) => Some(m),
        _ => None,
    };
    let mut results = vec![];
    for (i, op) in ops.iter().enumerate() {
        st.borrow_mut().cur_op = i as u32;
        results.push(apply(&mut m, op));
    }
    drop(m);
    let s = std::mem::take(&mut *st.borrow_mut());
    FaultRun { results, accepted: s.accepted, log: s.log, fatal_answers: s.fatal_answers }
}

/// representative histories: (name, cfg, writes)
pub fn histories() -> Vec<(String, Cfg, Vec<Op>)> {
    let mut out = vec![];
    let spec = |order: Vec<bool>, mode: PtsMode, perm: Vec<usize>| HistSpec { order, dts_pattern: 0, pts_mode: mode, perm, keymask: 0, vsize_pattern: 0, asize_pattern: 0, audio_lead: 0.0 };
    for fast in [true, false] {
        for meta in [false, true] {
            let m = if meta { Some(MMeta { title: Some("faulty".into()), time: Some(1_000_000_000), lang: Some("deu".into()) }) } else { None };
            // video only, 3 frames with reordering
            let mut c = Cfg::basic(VCodec::H264, None, fast);
            c.meta = m.clone();
            out.push((format!("video-only/{}{}", if fast { "fast" } else { "std" }, if meta { "/meta" } else { "" }), c.clone(), hist::build_ops(&c, &spec(vec![true, true, true], PtsMode::Perm(1), vec![0, 2, 1]))));
            // A/V
            let mut c = Cfg::basic(if meta { VCodec::H265 } else { VCodec::Av1 }, Some(if meta { ACodec::Opus } else { ACodec::AacLc }), fast);
            c.meta = m.clone();
            out.push((format!("av/{}{}", if fast { "fast" } else { "std" }, if meta { "/meta" } else { "" }), c.clone(), hist::build_ops(&c, &spec(vec![true, false, true, false], PtsMode::Plain, vec![]))));
        }
        // a sample larger than 64 KiB (a single write of that size reaches the sink)
        {
            let c = Cfg::basic(VCodec::H264, None, fast);
            let k = oracle::frames::video_frame(VCodec::H264, true, true, 1, 6).0;
            let mut big = vec![0u8, 0, 0, 1, 0x41];
            big.extend((0..100_000usize).map(|i| 0x10 + (i % 0xe0) as u8));
            out.push((format!("large-sample/{}", if fast { "fast" } else { "std" }), c, vec![Op::WV { pts: T(0.0), data: Bytes::new(k), key: true }, Op::WV { pts: T(0.04), data: Bytes::new(big), key: false }]));
        }
        // a 300 KiB video sample scheduled after smaller samples of both tracks (staging buffers,
        // chunked writes and their flush order on the A/V paths)
        {
            let c = Cfg::basic(VCodec::H265, Some(ACodec::Opus), fast);
            let k = oracle::frames::video_frame(VCodec::H265, true, true, 1, 6).0;
            let big = oracle::frames::video_frame(VCodec::H265, false, false, 2, 300 * 1024 + 7).0;
            let small = oracle::frames::video_frame(VCodec::H265, false, false, 3, 9).0;
            let a = |i: u32| Bytes::new(oracle::frames::audio_frame(ACodec::Opus, i, 40).0);
            out.push((format!("large-sample-av/{}", if fast { "fast" } else { "std" }), c, vec![Op::WV { pts: T(0.0), data: Bytes::new(k), key: true }, Op::WA { pts: T(0.0), data: a(0) }, Op::WA { pts: T(0.02), data: a(1) }, Op::WV { pts: T(0.04), data: Bytes::new(big), key: false }, Op::WA { pts: T(0.04), data: a(2) }, Op::WV { pts: T(0.08), data: Bytes::new(small), key: false }, Op::WA { pts: T(0.08), data: a(3) }]));
        }
        // lopsided tracks: one video frame with four audio frames, four video frames with one
        // audio frame (code that indexes one track with the other's position)
        {
            let c = Cfg::basic(VCodec::H264, Some(ACodec::Opus), fast);
            out.push((format!("audio-heavy/{}", if fast { "fast" } else { "std" }), c.clone(), hist::build_ops(&c, &spec(vec![true, false, false, false, false], PtsMode::Plain, vec![]))));
            let c = Cfg::basic(VCodec::Vp9, Some(ACodec::AacLc), fast);
            out.push((format!("video-heavy/{}", if fast { "fast" } else { "std" }), c.clone(), hist::build_ops(&c, &spec(vec![true, true, false, true, true], PtsMode::Plain, vec![]))));
        }
        // zero-frame and single-frame files
        let c = Cfg::basic(VCodec::H264, None, fast);
        out.push((format!("zero-frame/{}", if fast { "fast" } else { "std" }), c.clone(), vec![]));
        let c = Cfg::basic(VCodec::Vp9, Some(ACodec::AacLc), fast);
        out.push((format!("single-frame-av/{}", if fast { "fast" } else { "std" }), c.clone(), hist::build_ops(&c, &spec(vec![true], PtsMode::Plain, vec![]))));
    }
    out
}

fn continuations(cfg: &Cfg) -> Vec<Vec<Op>> {
    let v = Op::WV { pts: T(50.0), data: Bytes::new(oracle::frames::video_frame(cfg.codec, true, true, 9, 4).0), key: true };
    let a = Op::WA { pts: T(50.0), data: Bytes::new(oracle::frames::audio_frame(cfg.audio.as_ref().map(|a| a.codec).unwrap_or(ACodec::AacLc), 9, 4).0) };
    // (the consuming finishers end the object's life: nothing can follow them, which the
    // NotRun results of later calls reflect)
    let singles = vec![Op::FinishInPlace, v, a, Op::FinishInPlaceStats, Op::Flush, Op::Finish, Op::FinishStats];
    let mut out = vec![vec![]];
    for x in &singles {
        out.push(vec![x.clone()]);
        for y in &singles {
            out.push(vec![x.clone(), y.clone()]);
        }
    }
    out
}

struct Item {
    name: String,
    cfg: Cfg,
    ops: Vec<Op>,
    scripts: Vec<Script>,
    clean: Vec<u8>,
    clean_bytes_written: u64,
}

fn judge(it: &Item, script: &Script, cont: &[Op], order: (u64, u64), t: &mut Tally) {
    let mut ops = it.ops.clone();
    ops.push(Op::FinishInPlaceStats);
    let fin = ops.len() - 1;
    ops.extend(cont.iter().cloned());
    let r = run_faulty(&it.cfg, &ops, script);
    t.evaluations += 1;
    let mut h = Fnv::new();
    for x in &r.results {
        h.str(&x.brief());
    }
    h.bytes(&r.accepted);
    t.outcome(h.0);
    let mut issues: Vec<(String, String)> = vec![];
    for (i, x) in r.results.iter().enumerate() {
        if let Res::Panic(m) = x {
            issues.push(("panic".into(), format!("call {i} {} panicked: {m}", ops[i].brief())));
        }
    }
    let finish_res = &r.results[fin];
    let failed = r.fatal_answers > 0;
    match (finish_res.is_ok(), failed) {
        (true, true) => issues.push(("error-swallowed".into(), format!("finish returned {} although the sink failed ({} fatal answers)", finish_res.brief(), r.fatal_answers))),
        (false, false) => {
            if !matches!(finish_res, Res::Panic(_)) {
                issues.push(("spurious-error".into(), format!("finish returned {} although every write was eventually accepted", finish_res.brief())));
            }
        }
        _ => {}
    }
    if !it.clean.starts_with(&r.accepted) {
        let pos = it.clean.iter().zip(&r.accepted).position(|(a, b)| a != b).unwrap_or(it.clean.len().min(r.accepted.len()));
        issues.push(("not-a-prefix".into(), format!("the sink accepted {} bytes which differ from the fault-free file at byte {pos} (fault-free length {})", r.accepted.len(), it.clean.len())));
    }
    // nothing may reach the sink outside the (first) finish call
    if let Some((op, req, ans)) = r.log.iter().find(|(op, _, _)| *op as usize != fin) {
        let when = if (*op as usize) < fin { "before-finish" } else { "after-finish-attempt" };
        issues.push((format!("write-{when}"), format!("call {op} {} issued a sink write of {req} bytes (answer {ans})", ops[*op as usize].brief())));
    }
    for i in fin + 1..ops.len() {
        if r.results[i].is_ok() {
            issues.push(("accepted-after-finish-attempt".into(), format!("call {i} {} succeeded after finish had {}", ops[i].brief(), finish_res.brief())));
        }
    }
    if !failed {
        if r.accepted != it.clean {
            issues.push(("short-writes-change-output".into(), format!("with only short/interrupted answers the sink holds {} bytes, the fault-free run {}", r.accepted.len(), it.clean.len())));
        }
        if let Res::OkStats(s) = finish_res {
            if s.bytes_written != it.clean_bytes_written {
                issues.push(("short-writes-change-byte-count".into(), format!("bytes_written {} with short/interrupted answers, {} fault-free", s.bytes_written, it.clean_bytes_written)));
            }
        }
    }
    t.transitions += r.log.len() as u64;
    t.sample(3, || json!({"history": it.name, "script": script, "continuation": brief_ops(cont), "finish": finish_res.brief(), "sink_calls": r.log.len(), "accepted_bytes": r.accepted.len(), "fault_free_bytes": it.clean.len()}));
    for (sig, detail) in issues {
        t.violation(&format!("C13/{sig}"), order, || format!("{} | {} | script {:?} | then {} | {}", it.name, brief_ops(&it.ops), script, brief_ops(cont), detail), || json!({"engine": "E3", "cfg": it.cfg, "ops": it.ops, "script": script, "continuation": cont, "history_name": it.name}));
    }
}

fn deviation_scripts(ncalls: usize, max_dev: usize, menu: &[Ans]) -> Vec<Script> {
    // positions range over the fault-free call count plus the extra calls retries can add
    let n = ncalls + 2 * max_dev;
    let mut out = vec![Script::default()];
    let mut cur: Vec<Vec<(usize, Ans)>> = vec![vec![]];
    for _ in 0..max_dev {
        let mut next = vec![];
        for s in &cur {
            let from = s.last().map(|x| x.0 + 1).unwrap_or(0);
            for p in from..n {
                for &a in menu {
                    let mut s2 = s.clone();
                    s2.push((p, a));
                    next.push(s2);
                }
            }
        }
        out.extend(next.iter().map(|a| Script { answers: a.clone(), budget: None }));
        cur = next;
    }
    out
}

/// For C02: whenever a finish call reports success - also a *retried* finish after a failed one -
/// what the sink holds must be one well-formed file. Every history x failure at every write call
/// x {Other, every other kind, Ok(0)} x three finish attempts.
pub fn retry_part(ctx: &Ctx, prop: &'static str) -> Tally {
    use oracle::reader::{parse_movie, Class};
    let hs = histories();
    par_items(&hs, ctx.seed, |idx, (name, cfg, ops), t| {
        let mut full = ops.clone();
        full.push(Op::FinishInPlace);
        let ncalls = run_faulty(cfg, &full, &Script::default()).log.len();
        full.push(Op::FinishInPlace);
        full.push(Op::FinishInPlace);
        let mut kinds = vec![Ans::ErrOther, Ans::Zero];
        kinds.extend((0..OTHER_KINDS.len() as u8).map(Ans::ErrKind));
        for k in 0..ncalls {
            for (j, a) in kinds.iter().enumerate() {
                let script = Script { answers: vec![(k, *a)], budget: None };
                let r = run_faulty(cfg, &full, &script);
                t.evaluations += 1;
                t.states += 1;
                t.transitions += r.results.len() as u64;
                let order = (5_000_000 + idx as u64, (k * 64 + j) as u64);
                let case = || json!({"engine": "E3-c02", "history": name, "cfg": cfg, "ops": full, "script": script, "oracle": prop});
                if let Some((i, m)) = r.results.iter().enumerate().find_map(|(i, x)| if let Res::Panic(m) = x { Some((i, m.clone())) } else { None }) {
                    t.violation(&format!("{prop}/after-failed-finish/panic"), order, || format!("{name}: call {i} panicked: {m}"), case);
                    continue;
                }
                let n = r.results.len();
                let any_ok = r.results[n - 3..].iter().any(|x| x.is_ok());
                t.outcome(oracle::report::h64(&r.accepted) ^ any_ok as u64);
                if !any_ok {
                    t.count("no_finish_reported_success", 1);
                    continue;
                }
                t.traces += 1;
                let m = parse_movie(&r.accepted, "prog");
                if prop == "C01" {
                    // a finish that reports success must leave a file whose tables resolve to
                    // the accepted frames, also when an earlier attempt failed half-way
                    let e = oracle::fileck::expect_from(cfg, &full, &r.results);
                    if let Some((sig, detail)) = oracle::fileck::c01(&r.accepted, &m, cfg, &e).into_iter().next() {
                        t.violation("C01/after-failed-finish/samples-do-not-resolve", order, || format!("{name}: write call {k} answered {a:?}; a finish call then reported success, but the sink's {} bytes do not resolve to the accepted frames: {sig}: {detail}", r.accepted.len()), case);
                    }
                    continue;
                }
                if let Some(p) = m.probs.of(&[Class::Tile, Class::Mandatory, Class::Count]).first() {
                    // (the box path of the first problem is in the detail; it depends on the bytes)
                    t.violation("C02/after-failed-finish/not-one-well-formed-file", order, || format!("{name}: write call {k} answered {a:?}; a finish call then reported success, but the sink holds {} bytes that are not one well-formed file: {}: {}", r.accepted.len(), p.sig, p.detail), case);
                }
            }
        }
    })
}

pub fn check(ctx: &Ctx) -> i32 {
    let max_dev = if ctx.thorough { 3 } else { 2 };
    let mut items = vec![];
    for (name, cfg, ops) in histories() {
        // fault-free run
        let mut full = ops.clone();
        full.push(Op::FinishInPlaceStats);
        let clean = run_faulty(&cfg, &full, &Script::default());
        let ncalls = clean.log.len();
        let bw = match clean.results.last() {
            Some(Res::OkStats(s)) => s.bytes_written,
            _ => 0,
        };
        let mut scripts = vec![];
        // (a) fail at call k with every kind
        for k in 0..ncalls {
            for a in [Ans::ErrOther, Ans::ErrBrokenPipe, Ans::ErrOutOfMemory, Ans::ErrWouldBlock, Ans::Zero] {
                scripts.push(Script { answers: vec![(k, a)], budget: None });
            }
            // every other error kind of the standard library (the muxer must not interpret a
            // sink's error kind)
            for i in 0..OTHER_KINDS.len() as u8 {
                scripts.push(Script { answers: vec![(k, Ans::ErrKind(i))], budget: None });
            }
        }
        // (b) accept exactly j bytes, then fail: every offset (for the >64 KiB file: every 1021st
        // offset plus the neighbourhoods of every 64 KiB multiple and of both ends)
        let big = clean.accepted.len() > 20_000;
        for j in 0..clean.accepted.len() {
            let near = |x: usize| j + 3 >= x && j <= x + 3;
            if !big || j % 1021 == 0 || j < 64 || j + 64 >= clean.accepted.len() || near(65536) || near(131072) || near(65536 + 700) || (j + 3) % 65536 <= 6 {
                scripts.push(Script { answers: vec![], budget: Some(j) });
            }
        }
        // (c) bounded deviations over the non-fatal menu, plus one fatal answer after them
        let benign = [Ans::One, Ans::Half, Ans::Interrupted];
        let devs = deviation_scripts(ncalls, max_dev, &benign);
        scripts.extend(devs.iter().cloned());
        for d in deviation_scripts(ncalls, 1, &benign) {
            for k in 0..ncalls + 2 {
                if d.answers.iter().all(|x| x.0 != k) {
                    let mut a = d.answers.clone();
                    a.push((k, Ans::ErrOther));
                    scripts.push(Script { answers: a, budget: None });
                }
            }
        }
        // (e) runs of consecutive Interrupted answers at one write position (a signal storm): the
        // sink never fails, so whatever the length of the run the outcome is the fault-free one
        for pos in 0..ncalls {
            for run in [2usize, 3, 8, 33, 100, 300] {
                scripts.push(Script { answers: (pos..pos + run).map(|k| (k, Ans::Interrupted)).collect(), budget: None });
            }
        }
        // full product of the menu over all calls for the tiny files
        if ncalls <= 8 && !big {
            let menu = [Ans::All, Ans::One, Ans::Half, Ans::Interrupted];
            let mut prod: Vec<Vec<(usize, Ans)>> = vec![vec![]];
            for k in 0..ncalls {
                prod = prod.into_iter().flat_map(|p| menu.iter().map(move |&a| { let mut q = p.clone(); if a != Ans::All { q.push((k, a)); } q })).collect();
            }
            scripts.extend(prod.into_iter().map(|a| Script { answers: a, budget: None }));
        }
        for chunk in scripts.chunks(2000) {
            items.push(Item { name: name.clone(), cfg: cfg.clone(), ops: ops.clone(), scripts: chunk.to_vec(), clean: clean.accepted.clone(), clean_bytes_written: bw });
        }
    }
    let nhist = histories().len();
    let tally = par_items(&items, ctx.seed, |idx, it, t| {
        let conts = continuations(&it.cfg);
        for (k, s) in it.scripts.iter().enumerate() {
            t.states += 1;
            // continuation sweep only for single-deviation scripts (2-step continuations after
            // the first finish attempt); everything else gets the canonical "finish again, write"
            let single = s.answers.len() <= 1;
            if single {
                for (c, cont) in conts.iter().enumerate() {
                    judge(it, s, cont, (idx as u64, (k * 64 + c) as u64), t);
                }
            } else {
                judge(it, s, &conts[5.min(conts.len() - 1)], (idx as u64, (k * 64) as u64), t);
            }
            t.traces += 1;
        }
    });
    finish(
        ctx,
        &tally,
        Meta {
            level: "fault_enumeration",
            rule: format!("{nhist} representative histories (video-only with reordering, A/V, zero-frame, single-frame; fast start on/off; with/without metadata; 4 codecs, AAC and Opus) finished on a scripted sink. Enumerated per history: (a) failure at every write call x {{Ok(0), and every stable std::io::ErrorKind except Interrupted (39 kinds)}}; (b) every byte budget j (accept exactly j bytes, then fail) for every offset of the fault-free output; (c) every schedule with <= {max_dev} deviations from accept-all over {{1 byte, half, Interrupted}}, and every 1-deviation schedule followed by a failure at every later call; (e) at every write position a run of 2, 3, 8, 33, 100 or 300 consecutive Interrupted answers; (d) the full product of {{all, 1 byte, half, Interrupted}} over all calls for files written in <= 8 calls; after the finish attempt every continuation of <= 2 calls from {{finish_in_place, write_video, write_audio, finish_in_place_with_stats, flush, finish, finish_with_stats}} (for single-answer scripts). A case is distinct by (result vector, bytes the sink accepted)."),
            bound: format!("<= {max_dev} benign deviations; all single failure points; all byte offsets"),
            exhaustive: true,
            assumptions: vec!["a sink that answers Interrupted forever is excluded (write_all livelocks by contract)".into(), "Ok(0) on a non-empty buffer counts as a failure (write_all reports WriteZero)".into()],
            extra: json!({"histories": nhist}),
        },
    )
}

pub fn replay(case: &Value) -> i32 {
    let cfg: Cfg = serde_json::from_value(case["cfg"].clone()).expect("cfg");
    let ops: Vec<Op> = serde_json::from_value(case["ops"].clone()).expect("ops");
    let script: Script = serde_json::from_value(case["script"].clone()).expect("script");
    if case["engine"].as_str() == Some("E3-c02") {
        use oracle::reader::{parse_movie, Class};
        let r = run_faulty(&cfg, &ops, &script);
        println!("history: {}", brief_ops(&ops));
        println!("script: {script:?}");
        println!("results: {:?}", r.results.iter().map(|x| x.brief()).collect::<Vec<_>>());
        let n = r.results.len();
        if !r.results[n.saturating_sub(3)..].iter().any(|x| x.is_ok()) {
            println!("replay: no finish call reported success; property C02 holds for this case");
            return 0;
        }
        let m = parse_movie(&r.accepted, "prog");
        if case["oracle"].as_str() == Some("C01") {
            let e = oracle::fileck::expect_from(&cfg, &ops, &r.results);
            let issues = oracle::fileck::c01(&r.accepted, &m, &cfg, &e);
            for (s, d) in &issues {
                println!("replay: VIOLATION {s}: {d}");
            }
            if issues.is_empty() {
                println!("replay: property C01 holds for this case");
            }
            return if issues.is_empty() { 0 } else { 1 };
        }
        let probs = m.probs.of(&[Class::Tile, Class::Mandatory, Class::Count]);
        for p in &probs {
            println!("replay: VIOLATION {}: {}", p.sig, p.detail);
        }
        if probs.is_empty() {
            println!("replay: property C02 holds for this case");
        }
        return if probs.is_empty() { 0 } else { 1 };
    }
    let cont: Vec<Op> = serde_json::from_value(case["continuation"].clone()).expect("continuation");
    let mut full = ops.clone();
    full.push(Op::FinishInPlaceStats);
    let clean = run_faulty(&cfg, &full, &Script::default());
    let bw = match clean.results.last() {
        Some(Res::OkStats(s)) => s.bytes_written,
        _ => 0,
    };
    let it = Item { name: case["history_name"].as_str().unwrap_or("?").to_string(), cfg, ops, scripts: vec![], clean: clean.accepted, clean_bytes_written: bw };
    let mut t = Tally::default();
    judge(&it, &script, &cont, (0, 0), &mut t);
    let mut all = it.ops.clone();
    all.push(Op::FinishInPlaceStats);
    all.extend(cont.iter().cloned());
    let r = run_faulty(&it.cfg, &all, &script);
    println!("history: {} then finish then {}", brief_ops(&it.ops), brief_ops(&cont));
    println!("script: {script:?}");
    println!("results: {:?}", r.results.iter().map(|x| x.brief()).collect::<Vec<_>>());
    println!("sink calls: {:?}", r.log);
    if t.viol.is_empty() {
        println!("replay: property C13 holds for this case");
        0
    } else {
        for (s, f) in &t.viol {
            println!("replay: VIOLATION {s}: {}", f.detail);
        }
        1
    }
}
