//! C07 - the codec configuration in the file is exactly that of the submitted stream.

use crate::frag::{self, FCfg};
use crate::run::run_finished;
use muxide::codec::av1::extract_av1_config;
use oracle::frames::{self, annexb, obu, ACodec, Av1Expect, SeqHdr, VCodec, Vp9Hdr, AAC_RATES};
use oracle::model::{hex, AudioCfg, Bytes, Cfg, Op, T};
use oracle::reader::{parse_movie, CodecCfg, Movie, SampleEntry};
use oracle::report::{finish, guarded, par_items, Ctx, Meta, Tally};
use serde_json::{json, Value};

type Issues = Vec<(String, String)>;

fn first_entry(m: &Movie, video: bool) -> Option<&SampleEntry> {
    let t = if video { m.video() } else { m.audio() };
    t.and_then(|t| t.entry.as_ref())
}

/// Submit `frame` as the first keyframe, finish, parse. Ok(None) = the frame was rejected.
fn mux_first_frame(cfg: &Cfg, frame: &[u8]) -> Result<Option<(Vec<u8>, Movie)>, String> {
    let ops = vec![Op::WV { pts: T(0.0), data: Bytes::new(frame.to_vec()), key: true }];
    let ex = run_finished(cfg, &ops);
    if let Some((i, m)) = ex.panicked() {
        return Err(format!("call {i} panicked: {m}"));
    }
    if !ex.results[0].is_ok() {
        return Ok(None);
    }
    if !ex.results[1].is_ok() {
        return Err(format!("finish failed: {}", ex.results[1].brief()));
    }
    let m = parse_movie(&ex.bytes, "prog");
    Ok(Some((ex.bytes, m)))
}

// ---------------------------------------------------------------------------------------------
// H.264 / H.265 parameter sets
// ---------------------------------------------------------------------------------------------

fn nal_alphabet(codec: VCodec) -> Vec<(&'static str, Vec<u8>)> {
    match codec {
        VCodec::H264 => vec![
            ("SPSa", frames::h264_sps(0)),
            ("SPSb", frames::h264_sps(3)),
            ("PPSa", frames::h264_pps(0)),
            ("PPSb", frames::h264_pps(2)),
            ("IDR", vec![0x65, 0x88, 0x84, 0x21]),
            ("SEI", vec![0x06, 0x05, 0x11, 0x80]),
            ("AUD", vec![0x09, 0xf0]),
            ("nonIDR", vec![0x41, 0x9a, 0x22]),
        ],
        _ => vec![
            ("VPSa", frames::h265_vps(0)),
            ("VPSb", frames::h265_vps(2)),
            ("SPSa", frames::h265_sps(0)),
            ("SPSb", frames::h265_sps(3)),
            ("PPSa", frames::h265_pps(0)),
            ("PPSb", frames::h265_pps(2)),
            ("IDR", vec![0x26, 0x01, 0xaf, 0x11]),
            ("SEI", vec![0x4e, 0x01, 0x05, 0x80]),
            ("AUD", vec![0x46, 0x01, 0x50]),
            ("TRAIL", vec![0x02, 0x01, 0xd0, 0x33]),
        ],
    }
}

fn nal_type(codec: VCodec, u: &[u8]) -> u8 {
    match codec {
        VCodec::H264 => u[0] & 0x1f,
        _ => (u[0] >> 1) & 0x3f,
    }
}

fn judge_nal_frame(codec: VCodec, units: &[Vec<u8>], variant: usize, order: (u64, u64), t: &mut Tally) {
    // variants 0..8: bit0 start-code phase, bit1 leading garbage, bit2 trailing zeros;
    // variants 8..12: an empty unit (a bare start code directly followed by the next start code)
    // in front of unit 0 or 1, in either start-code phase
    let mut frame = vec![];
    if variant < 8 && variant & 2 != 0 {
        frame.extend_from_slice(&[0x09, 0x30]);
    }
    let phase3 = if variant < 8 { variant & 1 != 0 } else { (variant - 8) / 2 == 0 };
    let empty_before = if variant < 8 { usize::MAX } else { (variant - 8) % 2 };
    for (i, u) in units.iter().enumerate() {
        let short = (i % 2 == 0) == phase3;
        if i == empty_before {
            frame.extend_from_slice(if short { &[0, 0, 1][..] } else { &[0, 0, 0, 1][..] });
        }
        frame.extend_from_slice(if short { &[0, 0, 1][..] } else { &[0, 0, 0, 1][..] });
        frame.extend_from_slice(u);
    }
    if variant < 8 && variant & 4 != 0 {
        frame.extend_from_slice(&[0, 0]);
    }
    judge_nal_bytes(codec, &frame, if variant < 8 { variant & 1 == 0 } else { variant % 2 == 0 }, order, t);
}

fn judge_nal_bytes(codec: VCodec, frame: &[u8], fast: bool, order: (u64, u64), t: &mut Tally) {
    let frame = frame.to_vec();
    let (ty_sps, ty_pps, ty_vps) = if codec == VCodec::H264 { (7, 8, 255) } else { (33, 34, 32) };
    // The parameter sets "taken from the first keyframe" are the units as C14 defines them: the
    // byte runs between start codes of the submitted frame (a run before the end of input keeps
    // its trailing zero bytes), so the expectation is derived by the reference splitter from
    // the frame bytes, not from the generator's unit list.
    let split: Vec<Vec<u8>> = oracle::refmodel::annexb_units(&frame).into_iter().filter(|u| !u.is_empty()).map(|u| u.to_vec()).collect();
    let first = |ty: u8| split.iter().find(|u| nal_type(codec, u) == ty).cloned();
    let (sps, pps, vps) = (first(ty_sps), first(ty_pps), first(ty_vps));
    let carries = sps.is_some() && pps.is_some() && (codec == VCodec::H264 || vps.is_some());
    let cfg = Cfg { width: 1920, height: 1080, ..Cfg::basic(codec, None, fast) };
    t.evaluations += 1;
    let case = || json!({"engine": "E2-c07-nal", "codec": codec, "frame": hex(&frame), "fast": fast});
    match mux_first_frame(&cfg, &frame) {
        Err(e) => t.violation("C07/nal/panic-or-finish-failure", order, || format!("{codec:?} frame {}: {e}", hex(&frame)), case),
        Ok(None) => {
            t.count("frames_rejected", 1);
            // a first parameter set beyond 65535 bytes cannot be carried by the record's 16-bit
            // length fields: refusing the frame is the only correct outcome then (C16)
            let representable = [&sps, &pps, &vps].iter().all(|x| x.as_ref().map(|u| u.len() <= 65535).unwrap_or(true));
            if carries && representable {
                t.violation("C07/nal/config-carrying-keyframe-rejected", order, || format!("{codec:?} frame {} holds all parameter sets but was rejected", hex(&frame)), case);
            }
        }
        Ok(Some((_, m))) => {
            t.count("frames_accepted", 1);
            if !carries {
                t.violation("C07/nal/accepted-without-config", order, || format!("{codec:?} frame {} lacks a parameter set but was accepted as the first keyframe", hex(&frame)), case);
                return;
            }
            let Some(e) = first_entry(&m, true) else {
                t.violation("C07/nal/no-sample-entry", order, || "no video sample entry".into(), case);
                return;
            };
            t.outcome(oracle::report::h64(&e.raw));
            let mut issues: Issues = vec![];
            let want_fcc: &[u8; 4] = if codec == VCodec::H264 { b"avc1" } else { b"hvc1" };
            if &e.format != want_fcc {
                issues.push(("fourcc".into(), format!("sample entry type {:?}", oracle::reader::fcc(&e.format))));
            }
            if (e.width, e.height) != (1920, 1080) {
                issues.push(("dimensions".into(), format!("{}x{} instead of 1920x1080", e.width, e.height)));
            }
            match (&e.cfg, codec) {
                (CodecCfg::Avc { profile, compat, level, sps: fs, pps: fp, .. }, VCodec::H264) => {
                    let s = sps.clone().unwrap();
                    if fs.len() != 1 || fs[0] != s {
                        issues.push(("avcC-sps".into(), format!("avcC SPS {:?}, first SPS of the frame {}", fs.iter().map(|x| hex(x)).collect::<Vec<_>>(), hex(&s))));
                    }
                    if fp.len() != 1 || fp[0] != pps.clone().unwrap() {
                        issues.push(("avcC-pps".into(), format!("avcC PPS {:?}, first PPS of the frame {}", fp.iter().map(|x| hex(x)).collect::<Vec<_>>(), hex(&pps.clone().unwrap()))));
                    }
                    if (*profile, *compat, *level) != (s[1], s[2], s[3]) {
                        issues.push(("avcC-profile-level".into(), format!("avcC says {profile:#x}/{compat:#x}/{level:#x}, SPS bytes 1-3 are {:02x?}", &s[1..4])));
                    }
                }
                (CodecCfg::Hevc { arrays, .. }, VCodec::H265) => {
                    for (ty, want, name) in [(32u8, &vps, "vps"), (33, &sps, "sps"), (34, &pps, "pps")] {
                        let found: Vec<&Vec<Vec<u8>>> = arrays.iter().filter(|a| a.0 == ty).map(|a| &a.1).collect();
                        let ok = found.len() == 1 && found[0].len() == 1 && Some(&found[0][0]) == want.as_ref();
                        if !ok {
                            issues.push((format!("hvcC-{name}"), format!("hvcC array for type {ty}: {:?}; first {name} of the frame: {:?}", found, want.as_ref().map(|x| hex(x)))));
                        }
                    }
                }
                (other, _) => issues.push(("config-record-missing".into(), format!("{other:?}"))),
            }
            for (s, d) in issues {
                t.violation(&format!("C07/nal/{s}"), order, || format!("{codec:?} frame {}: {d}", hex(&frame)), case);
            }
        }
    }
}

// ---------------------------------------------------------------------------------------------
// AV1
// ---------------------------------------------------------------------------------------------

/// Every syntactically valid header over the branch product (reduced domains when `full` is off).
pub fn av1_headers(full: bool) -> Vec<SeqHdr> {
    let mut out = std::collections::HashSet::new();
    let b = [false, true];
    let levels: &[u8] = if full { &[0, 7, 8, 31] } else { &[7, 8] };
    // incl. the longest ordinary code (31 leading zeros) and the 32-leading-zeros escape
    let uvlcs: &[u32] = if full { &[0, 1, 5, u32::MAX - 1, u32::MAX] } else { &[0, 5, u32::MAX - 1, u32::MAX] };
    let descs: &[u8] = if full { &[0, 1, 2, 3, 4, 5, 6] } else { &[0, 1, 3, 5] };
    let csps: &[u8] = if full { &[0, 1, 2, 3] } else { &[0, 2] };
    // section B (timing / decoder model / operating points) x section C (tools) x section D (colour)
    let mut secb = vec![];
    for &timing in &b {
        for &epi in &b {
            for &uv in uvlcs {
                for &dm in &b {
                    for &dd in &b {
                        for opc in [1u8, 2] {
                            for &lvl in levels {
                                for &tier in &b {
                                    for &odm in &b {
                                        for &odd in &b {
                                            secb.push((timing, epi, uv, dm, dd, opc, lvl, tier, odm, odd));
                                        }
                                    }
                                }
                            }
                        }
                    }
                }
            }
        }
    }
    let mut secc = vec![];
    for &fid in &b {
        for &oh in &b {
            for &cs in &b {
                for &fs in &b {
                    for &ci in &b {
                        secc.push((fid, oh, cs, fs, ci));
                    }
                }
            }
        }
    }
    let mut secd = vec![];
    for &hbd in &b {
        for &tw in &b {
            for &mono in &b {
                for &cd in descs {
                    for &sx in &b {
                        for &sy in &b {
                            for &csp in csps {
                                secd.push((hbd, tw, mono, cd, sx, sy, csp));
                            }
                        }
                    }
                }
            }
        }
    }
    let mk = |profile: u8, still: bool, reduced: bool, sb: &(bool, bool, u32, bool, bool, u8, u8, bool, bool, bool), sc: &(bool, bool, bool, bool, bool), sd: &(bool, bool, bool, u8, bool, bool, u8), film: bool| {
        SeqHdr {
            profile,
            still,
            reduced,
            timing: sb.0,
            equal_picture_interval: sb.1,
            uvlc: sb.2,
            decoder_model: sb.3,
            display_delay: sb.4,
            op_count: sb.5,
            level: sb.6,
            tier: sb.7,
            op_decoder_model: sb.8,
            op_display_delay: sb.9,
            frame_id: sc.0,
            order_hint: sc.1,
            choose_screen: sc.2,
            force_screen: sc.3,
            choose_imv: sc.4,
            high_bitdepth: sd.0,
            twelve_bit: sd.1,
            mono: sd.2,
            color_desc: sd.3,
            subx: sd.4,
            suby: sd.5,
            csp: sd.6,
            film_grain: film,
        }
        .normalised()
    };
    let defb = (false, false, 0u32, false, false, 1u8, 9u8, false, false, false);
    let defc = (false, true, true, false, true);
    let defd = (false, false, false, 0u8, true, true, 0u8);
    for profile in 0..3u8 {
        for (still, reduced) in [(false, false), (true, false), (true, true)] {
            for &film in &b {
                if full {
                    for sb in &secb {
                        for sc in &secc {
                            for sd in &secd {
                                out.insert(mk(profile, still, reduced, sb, sc, sd, film));
                            }
                        }
                    }
                } else {
                    // each pair of sections in full product, the third at its default
                    for sb in &secb {
                        for sc in &secc {
                            out.insert(mk(profile, still, reduced, sb, sc, &defd, film));
                        }
                        for sd in &secd {
                            out.insert(mk(profile, still, reduced, sb, &defc, sd, film));
                        }
                    }
                    for sc in &secc {
                        for sd in &secd {
                            out.insert(mk(profile, still, reduced, &defb, sc, sd, film));
                        }
                    }
                }
            }
        }
    }
    let mut v: Vec<SeqHdr> = out.into_iter().collect();
    v.sort_by_key(|h| h.payload());
    v
}

const LAYOUTS: usize = 9;

/// (frame bytes, the sequence-header OBU exactly as submitted)
fn av1_layout(h: &SeqHdr, layout: usize) -> (Vec<u8>, Vec<u8>) {
    let p = h.payload();
    let frame_obu = obu(6, false, true, &[0x10, 0x55, 0x66]);
    let td = obu(2, false, true, &[]);
    match layout {
        0 => {
            let s = obu(1, false, true, &p);
            ([td, s.clone(), frame_obu].concat(), s)
        }
        1 => {
            let s = obu(1, false, true, &p);
            ([s.clone(), frame_obu].concat(), s)
        }
        2 => {
            let s = obu(1, true, true, &p);
            ([td, s.clone(), frame_obu].concat(), s)
        }
        3 => {
            // no size field: the OBU extends to the end of the frame
            let s = obu(1, false, false, &p);
            ([td, s.clone()].concat(), s)
        }
        4 => {
            let s = obu(1, true, false, &p);
            (s.clone(), s)
        }
        5 => {
            let s = obu(1, false, true, &p);
            (s.clone(), s)
        }
        6 => {
            // a 200-byte padding OBU first: its size needs a two-byte LEB128
            let s = obu(1, false, true, &p);
            ([td, obu(15, false, true, &[0x5a; 200]), s.clone(), frame_obu].concat(), s)
        }
        7 => {
            // the sequence header's own size written as a (legal) non-minimal two-byte LEB128
            let mut s = vec![(1 << 3) | 2, (p.len() as u8 & 0x7f) | 0x80, 0x00];
            s.extend_from_slice(&p);
            ([td, s.clone(), frame_obu].concat(), s)
        }
        _ => {
            // a metadata OBU with a three-byte non-minimal size and an extension byte first
            let mut md = vec![(5 << 3) | 4 | 2, 0x00, 0x83, 0x80, 0x00, 1, 2, 3];
            let s = obu(1, false, true, &p);
            md.extend_from_slice(&td);
            ([md, s.clone(), frame_obu].concat(), s)
        }
    }
}

fn av1_field_issues(got: &Av1Expect, want: &Av1Expect) -> Issues {
    let mut v = vec![];
    macro_rules! cmp {
        ($f:ident) => {
            if got.$f != want.$f {
                v.push((stringify!($f).to_string(), format!("record says {:?}, the header encodes {:?}", got.$f, want.$f)));
            }
        };
    }
    cmp!(profile);
    cmp!(level);
    cmp!(tier);
    cmp!(high_bitdepth);
    cmp!(twelve_bit);
    cmp!(mono);
    cmp!(subx);
    cmp!(suby);
    cmp!(csp);
    v
}

fn report_av1(t: &mut Tally, h: &SeqHdr, layout: usize, path: &str, order: (u64, u64), issues: Issues, frame: &[u8]) {
    for (f, d) in issues {
        // monochrome headers have their own signature: the recorded finding is specific to them
        let sig = if h.mono && f == "csp" {
            format!("C07/av1/{path}/monochrome-chroma-sample-position")
        } else if h.mono && f == "valid-header-rejected" {
            format!("C07/av1/{path}/monochrome-header-rejected")
        } else {
            format!("C07/av1/{path}/{f}")
        };
        t.violation(&sig, order, || format!("layout {layout}, header {h:?}: {d}"), || json!({"engine": "E2-c07-av1", "header_payload": hex(&h.payload()), "layout": layout, "frame": hex(frame), "path": path, "header": h}));
    }
}

fn judge_av1_parser(h: &SeqHdr, layout: usize, order: (u64, u64), t: &mut Tally) {
    let (frame, seq) = av1_layout(h, layout);
    t.evaluations += 1;
    let want = h.expect();
    match guarded(|| extract_av1_config(&frame)) {
        Err(p) => report_av1(t, h, layout, "parser", order, vec![("panic".into(), p)], &frame),
        Ok(None) => report_av1(t, h, layout, "parser", order, vec![("valid-header-rejected".into(), "extract_av1_config returned None".into())], &frame),
        Ok(Some(c)) => {
            let got = Av1Expect { profile: c.seq_profile, level: c.seq_level_idx, tier: c.seq_tier, high_bitdepth: c.high_bitdepth, twelve_bit: c.twelve_bit, mono: c.monochrome, subx: c.chroma_subsampling_x, suby: c.chroma_subsampling_y, csp: c.chroma_sample_position };
            let mut issues = av1_field_issues(&got, &want);
            if c.sequence_header != seq {
                issues.push(("sequence-header-bytes".into(), format!("config holds {}, submitted OBU is {}", hex(&c.sequence_header), hex(&seq))));
            }
            let mut hsh = oracle::report::Fnv::new();
            hsh.bytes(&c.sequence_header).u64(layout as u64);
            t.outcome(hsh.0);
            report_av1(t, h, layout, "parser", order, issues, &frame);
        }
    }
}

fn judge_av1_file(h: &SeqHdr, layout: usize, order: (u64, u64), t: &mut Tally) {
    let (frame, seq) = av1_layout(h, layout);
    t.evaluations += 1;
    t.count("av1_headers_through_muxer", 1);
    let cfg = Cfg { width: 4096, height: 2160, ..Cfg::basic(VCodec::Av1, None, layout % 2 == 0) };
    match mux_first_frame(&cfg, &frame) {
        Err(e) => report_av1(t, h, layout, "file", order, vec![("panic-or-finish-failure".into(), e)], &frame),
        Ok(None) => report_av1(t, h, layout, "file", order, vec![("valid-header-rejected".into(), "first keyframe rejected".into())], &frame),
        Ok(Some((_, m))) => {
            let Some(e) = first_entry(&m, true) else {
                report_av1(t, h, layout, "file", order, vec![("no-sample-entry".into(), String::new())], &frame);
                return;
            };
            let mut issues: Issues = vec![];
            if &e.format != b"av01" {
                issues.push(("fourcc".into(), oracle::reader::fcc(&e.format)));
            }
            if (e.width, e.height) != (4096, 2160) {
                issues.push(("dimensions".into(), format!("{}x{}", e.width, e.height)));
            }
            match &e.cfg {
                CodecCfg::Av1 { seq_profile, seq_level_idx, seq_tier, high_bitdepth, twelve_bit, monochrome, subx, suby, csp, config_obus, .. } => {
                    let got = Av1Expect { profile: *seq_profile, level: *seq_level_idx, tier: *seq_tier, high_bitdepth: *high_bitdepth, twelve_bit: *twelve_bit, mono: *monochrome, subx: *subx, suby: *suby, csp: *csp };
                    issues.extend(av1_field_issues(&got, &h.expect()));
                    if config_obus != &seq {
                        issues.push(("configOBUs".into(), format!("av1C holds {}, the submitted sequence header OBU is {}", hex(config_obus), hex(&seq))));
                    }
                }
                o => issues.push(("config-record-missing".into(), format!("{o:?}"))),
            }
            t.outcome(oracle::report::h64(&e.raw));
            report_av1(t, h, layout, "file", order, issues, &frame);
        }
    }
}

// ---------------------------------------------------------------------------------------------
// VP9
// ---------------------------------------------------------------------------------------------

fn vp9_headers() -> Vec<Vp9Hdr> {
    let mut v = vec![];
    for profile in 0..4u8 {
        for ten_bit in [false, true] {
            for cs in 0..8u8 {
                for tr in [0u8, 1, 7] {
                    for mx in 0..2u8 {
                        for fr in [false, true] {
                            for render in [None, Some((640u32, 360u32)), Some((20000, 70))] {
                                for (w, hgt) in [(100u32, 90u32), (1280, 720), (20000, 16384)] {
                                    let h = Vp9Hdr { profile, ten_bit, color_space: cs, transfer: tr, matrix: mx, full_range: fr, width: w, height: hgt, render };
                                    if h.valid() {
                                        v.push(h);
                                    }
                                }
                            }
                        }
                    }
                }
            }
        }
    }
    v
}

/// (profile, bit depth, colour space, transfer, matrix, full range) as stored in a vpcC record.
/// A record in the binding's layout is decoded per the binding; the 8-byte positional layout
/// muxide writes (a C19 finding of its own) is decoded positionally so that C07 judges values.
fn vpcc_fields(c: &CodecCfg) -> Option<(u8, u8, u8, u8, u8, u8, bool)> {
    match c {
        CodecCfg::Vp9 { fullbox: true, profile, bit_depth, full_range, cp, tc, mc, .. } => Some((*profile, *bit_depth, *cp, *tc, *mc, *full_range, true)),
        CodecCfg::Vp9 { fullbox: false, raw, .. } if raw.len() == 8 => Some((raw[1], raw[3], raw[4], raw[5], raw[6], raw[7], false)),
        _ => None,
    }
}

fn judge_vp9(h: &Vp9Hdr, order: (u64, u64), t: &mut Tally) {
    // what follows the header must not matter: compressed data, nothing at all (a header-only
    // keyframe), or single bytes whose bits look like header flags
    for (ti, tail) in [&[0x21u8, 0x22, 0x23][..], &[], &[0x04], &[0x0c, 0x0c], &[0xff]].iter().enumerate() {
        judge_vp9_tail(h, tail, (order.0, order.1 * 8 + ti as u64), t);
    }
}

fn judge_vp9_tail(h: &Vp9Hdr, tail: &[u8], order: (u64, u64), t: &mut Tally) {
    let mut frame = h.header(true);
    frame.extend_from_slice(tail);
    t.evaluations += 1;
    let cfg = Cfg { width: 1280, height: 720, ..Cfg::basic(VCodec::Vp9, None, h.profile % 2 == 0) };
    let case = || json!({"engine": "E2-c07-vp9", "frame": hex(&frame)});
    match mux_first_frame(&cfg, &frame) {
        Err(e) => t.violation("C07/vp9/panic-or-finish-failure", order, || format!("{h:?}: {e}"), case),
        Ok(None) => t.violation("C07/vp9/accepted-form-rejected", order, || format!("{h:?} frame {} rejected", hex(&frame)), case),
        Ok(Some((_, m))) => {
            let Some(e) = first_entry(&m, true) else { return };
            t.outcome(oracle::report::h64(&e.raw));
            let mut issues: Issues = vec![];
            if &e.format != b"vp09" {
                issues.push(("fourcc".into(), oracle::reader::fcc(&e.format)));
            }
            if (e.width, e.height) != (1280, 720) {
                issues.push(("dimensions".into(), format!("{}x{}", e.width, e.height)));
            }
            match vpcc_fields(&e.cfg) {
                None => issues.push(("vpcC-undecodable".into(), format!("{:?}", e.cfg))),
                Some((profile, depth, cs, tr, mx, fr, _)) => {
                    let want_depth = if h.ten_bit { 10 } else { 8 };
                    let want_fr = if h.color_space != 0 { h.full_range as u8 } else { 0 };
                    if profile != h.profile {
                        issues.push(("vpcC-profile".into(), format!("{profile} vs header {}", h.profile)));
                    }
                    if depth != want_depth {
                        issues.push(("vpcC-bit-depth".into(), format!("{depth} vs header {want_depth}")));
                    }
                    if (cs, tr, mx) != (h.color_space, h.transfer, h.matrix) {
                        issues.push(("vpcC-colour".into(), format!("({cs},{tr},{mx}) vs header ({},{},{})", h.color_space, h.transfer, h.matrix)));
                    }
                    if fr != want_fr {
                        issues.push(("vpcC-full-range".into(), format!("{fr} vs header {want_fr}")));
                    }
                }
            }
            for (s, d) in issues {
                t.violation(&format!("C07/vp9/{s}"), order, || format!("{h:?}: {d}"), case);
            }
        }
    }
}

// ---------------------------------------------------------------------------------------------
// audio sample description
// ---------------------------------------------------------------------------------------------

fn judge_audio(codec: ACodec, rate: u32, channels: u16, order: (u64, u64), t: &mut Tally) {
    let mut cfg = Cfg::basic(VCodec::H264, Some(codec), channels % 2 == 0);
    cfg.audio = Some(AudioCfg { codec, rate, channels });
    let ex = run_finished(&cfg, &[]);
    t.evaluations += 1;
    let case = || json!({"engine": "E2-c07-audio", "codec": codec, "rate": rate, "channels": channels});
    if let Some((i, m)) = ex.panicked() {
        t.violation("C07/audio/panic", order, || format!("{codec:?} {rate} Hz {channels} ch: call {i} panicked: {m}"), case);
        return;
    }
    if !ex.results[0].is_ok() {
        t.count("audio_config_finish_rejected", 1);
        return;
    }
    let m = parse_movie(&ex.bytes, "prog");
    let Some(e) = first_entry(&m, false) else {
        t.violation("C07/audio/no-sample-entry", order, || format!("{codec:?} {rate} Hz {channels} ch: no audio sample entry"), case);
        return;
    };
    t.outcome(oracle::report::h64(&e.raw));
    let mut issues: Issues = vec![];
    if e.channels != channels {
        issues.push(("channelcount".into(), format!("sample entry says {} channels, configured {channels}", e.channels)));
    }
    if codec.is_aac() {
        if &e.format != b"mp4a" {
            issues.push(("fourcc".into(), oracle::reader::fcc(&e.format)));
        }
        let want = (rate as u64) << 16;
        if e.rate_fixed as u64 != want {
            let sig = if rate >= 65536 { "samplerate-field/rate>=65536" } else { "samplerate-field" };
            issues.push((sig.into(), format!("samplerate field {:#010x} = {} Hz, configured {rate} Hz", e.rate_fixed, e.rate_fixed >> 16)));
        }
        match &e.cfg {
            CodecCfg::Esds { asc, .. } => {
                if let Some(sfi) = AAC_RATES.iter().position(|&r| r == rate) {
                    if asc.len() < 2 {
                        issues.push(("asc-missing".into(), format!("AudioSpecificConfig {asc:02x?}")));
                    } else {
                        let got_sfi = ((asc[0] & 7) << 1) | (asc[1] >> 7);
                        let got_ch = (asc[1] >> 3) & 0x0f;
                        if got_sfi as usize != sfi {
                            issues.push(("asc-sampling-frequency-index".into(), format!("index {got_sfi}, {rate} Hz is index {sfi}")));
                        }
                        if (1..=6).contains(&channels) && got_ch as u16 != channels {
                            issues.push(("asc-channel-configuration".into(), format!("channelConfiguration {got_ch}, configured {channels} channels")));
                        }
                        if asc[0] >> 3 == 0 {
                            issues.push(("asc-object-type".into(), "audioObjectType 0".into()));
                        }
                    }
                }
            }
            o => issues.push(("esds-missing".into(), format!("{o:?}"))),
        }
    } else {
        if &e.format != b"Opus" {
            issues.push(("fourcc".into(), oracle::reader::fcc(&e.format)));
        }
        if e.rate_fixed != 48000u32 << 16 {
            issues.push(("opus-samplerate".into(), format!("samplerate field {:#x}", e.rate_fixed)));
        }
        match &e.cfg {
            CodecCfg::Dops { channels: c, rate: r, .. } => {
                if *c as u16 != channels {
                    issues.push(("dOps-channels".into(), format!("OutputChannelCount {c}, configured {channels}")));
                }
                if *r != 48000 {
                    issues.push(("dOps-rate".into(), format!("InputSampleRate {r}")));
                }
            }
            o => issues.push(("dOps-missing".into(), format!("{o:?}"))),
        }
    }
    for (s, d) in issues {
        t.violation(&format!("C07/audio/{s}"), order, || format!("{codec:?} {rate} Hz {channels} ch: {d}"), case);
    }
}

// ---------------------------------------------------------------------------------------------
// fragmented init segments
// ---------------------------------------------------------------------------------------------

fn judge_init(fc: &FCfg, order: (u64, u64), t: &mut Tally) {
    t.evaluations += 1;
    let case = || json!({"engine": "E2-c07-init", "cfg": fc});
    let built = guarded(|| frag::make(fc).map(|mut m| m.init_segment()));
    let init = match built {
        Err(p) => {
            t.violation("C07/init/panic", order, || format!("{fc:?}: {p}"), case);
            return;
        }
        Ok(Err(_)) => {
            t.count("init_builder_rejected", 1);
            return;
        }
        Ok(Ok(i)) => i,
    };
    let m = parse_movie(&init, "init");
    let Some(e) = first_entry(&m, true) else {
        t.violation("C07/init/no-sample-entry", order, || format!("{fc:?}"), case);
        return;
    };
    t.outcome(oracle::report::h64(&e.raw));
    let mut issues: Issues = vec![];
    let want_fcc: &[u8; 4] = match fc.codec {
        VCodec::H264 => b"avc1",
        VCodec::H265 => b"hvc1",
        VCodec::Av1 => b"av01",
        VCodec::Vp9 => b"vp09",
    };
    if &e.format != want_fcc {
        issues.push(("fourcc".into(), oracle::reader::fcc(&e.format)));
    }
    if fc.width <= 65535 && fc.height <= 65535 && (e.width as u32, e.height as u32) != (fc.width, fc.height) {
        issues.push(("dimensions".into(), format!("{}x{} vs {}x{}", e.width, e.height, fc.width, fc.height)));
    }
    let (sps, pps, vps) = (frag::sps_of(fc.codec, fc.ps_len), frag::pps_of(fc.codec, fc.ps_len), frag::vps_of(fc.ps_len));
    match (&e.cfg, fc.codec) {
        (CodecCfg::Avc { sps: fs, pps: fp, profile, compat, level, .. }, VCodec::H264) => {
            if fs.len() != 1 || fs[0] != sps {
                issues.push(("avcC-sps".into(), format!("{} sets, first {:?}", fs.len(), fs.first().map(|x| x.len()))));
            }
            if fp.len() != 1 || fp[0] != pps {
                issues.push(("avcC-pps".into(), format!("{} sets", fp.len())));
            }
            if sps.len() >= 4 && (*profile, *compat, *level) != (sps[1], sps[2], sps[3]) {
                issues.push(("avcC-profile-level".into(), format!("{profile:#x}/{compat:#x}/{level:#x} vs SPS {:02x?}", &sps[1..4])));
            }
        }
        (CodecCfg::Hevc { arrays, .. }, VCodec::H265) => {
            for (ty, want, name) in [(32u8, &vps, "vps"), (33, &sps, "sps"), (34, &pps, "pps")] {
                let found: Vec<&Vec<Vec<u8>>> = arrays.iter().filter(|a| a.0 == ty).map(|a| &a.1).collect();
                if !(found.len() == 1 && found[0].len() == 1 && &found[0][0] == want) {
                    issues.push((format!("hvcC-{name}"), format!("array for type {ty} does not hold exactly the supplied {name}")));
                }
            }
        }
        (CodecCfg::Av1 { seq_profile, seq_level_idx, seq_tier, high_bitdepth, twelve_bit, monochrome, subx, suby, csp, config_obus, .. }, VCodec::Av1) => {
            let h = SeqHdr::default().normalised();
            let got = Av1Expect { profile: *seq_profile, level: *seq_level_idx, tier: *seq_tier, high_bitdepth: *high_bitdepth, twelve_bit: *twelve_bit, mono: *monochrome, subx: *subx, suby: *suby, csp: *csp };
            let fi = av1_field_issues(&got, &h.expect());
            if !fi.is_empty() {
                issues.push(("av1C-fields".into(), format!("{} fields disagree with the supplied sequence header, first: {} {}", fi.len(), fi[0].0, fi[0].1)));
            }
            if config_obus != &frames::av1_seq_obu(&h) {
                issues.push(("av1C-configOBUs".into(), format!("holds {} bytes", config_obus.len())));
            }
        }
        (c @ CodecCfg::Vp9 { .. }, VCodec::Vp9) => {
            let v = frag::vp9cfg();
            match vpcc_fields(c) {
                Some((p, d, cs, tr, mx, fr, _)) => {
                    if (p, d, cs, tr, mx, fr) != (v.profile, v.bit_depth, v.color_space, v.transfer_function, v.matrix_coefficients, v.full_range_flag) {
                        issues.push(("vpcC-fields".into(), format!("({p},{d},{cs},{tr},{mx},{fr}) vs supplied config")));
                    }
                }
                None => issues.push(("vpcC-undecodable".into(), String::new())),
            }
        }
        (o, _) => issues.push(("config-record-missing".into(), format!("{o:?}"))),
    }
    for (s, d) in issues {
        t.violation(&format!("C07/init/{:?}/{s}", fc.codec), order, || format!("{fc:?}: {d}"), case);
    }
}

/// The builder is given parameters of OTHER codecs in addition to the required ones (one
/// pipeline that sets everything it has): the sample entry must still be the configured codec's.
fn judge_stray(idx: u64, t: &mut Tally) {
    use muxide::api::{MuxerBuilder, VideoCodec};
    let seq = frames::av1_seq_obu(&SeqHdr::default().normalised());
    let mut k = 0u64;
    for codec in oracle::frames::VCODECS {
        for mask in 0..16u32 {
            k += 1;
            t.evaluations += 1;
            let vcodec = crate::run::vcodec(codec);
            let mut b = MuxerBuilder::new(Vec::<u8>::new()).video(vcodec, 640, 480, 30.0);
            // required parameters
            b = match codec {
                VCodec::H264 => b.with_sps(frag::sps_of(codec, 10)).with_pps(frag::pps_of(codec, 4)),
                VCodec::H265 => b.with_vps(frag::vps_of(7)).with_sps(frag::sps_of(codec, 16)).with_pps(frag::pps_of(codec, 7)),
                VCodec::Av1 => b.with_av1_sequence_header(seq.clone()),
                VCodec::Vp9 => b.with_vp9_config(frag::vp9cfg()),
            };
            // stray parameters of other codecs
            if mask & 1 != 0 && codec != VCodec::H265 {
                b = b.with_vps(frag::vps_of(7));
            }
            if mask & 2 != 0 && !matches!(codec, VCodec::H264 | VCodec::H265) {
                b = b.with_sps(frag::sps_of(VCodec::H264, 10)).with_pps(frag::pps_of(VCodec::H264, 4));
            }
            if mask & 4 != 0 && codec != VCodec::Av1 {
                b = b.with_av1_sequence_header(seq.clone());
            }
            if mask & 8 != 0 && codec != VCodec::Vp9 {
                b = b.with_vp9_config(frag::vp9cfg());
            }
            let case = || json!({"engine": "E2-c07-stray", "codec": codec, "stray_mask": mask});
            let r = guarded(|| b.new_with_fragment().map(|mut m| m.init_segment()));
            let want: &[u8; 4] = match vcodec {
                VideoCodec::H264 => b"avc1",
                VideoCodec::H265 => b"hvc1",
                VideoCodec::Av1 => b"av01",
                VideoCodec::Vp9 => b"vp09",
            };
            match r {
                Err(p) => t.violation("C07/init/stray/panic", (idx, k), || format!("{codec:?} stray mask {mask}: {p}"), case),
                Ok(Err(e)) => t.violation("C07/init/stray/rejected", (idx, k), || format!("{codec:?} with all required parameters plus stray ones (mask {mask}) was rejected: {e}"), case),
                Ok(Ok(init)) => {
                    let m = parse_movie(&init, "init");
                    t.outcome(oracle::report::h64(&init));
                    let got = first_entry(&m, true).map(|e| e.format);
                    if got != Some(*want) {
                        t.violation("C07/init/stray/fourcc", (idx, k), || format!("{codec:?} with stray parameters of other codecs (mask {mask}: 1=VPS 2=SPS/PPS 4=AV1 header 8=VP9 config) produced sample entry {:?}", got.map(|f| oracle::reader::fcc(&f))), case);
                    }
                }
            }
        }
    }
}

// ---------------------------------------------------------------------------------------------

/// "taken from the first keyframe": with rejected attempts before it and differently configured
/// keyframes after it, the sample entry must equal the one of the history holding only the first
/// *accepted* keyframe (differential oracle; the generator varies the carried configuration).
fn judge_cfg_history(codec: VCodec, manner: usize, va: u8, vb: u8, vc: u8, order: (u64, u64), t: &mut Tally) {
    use oracle::frames::video_frame_variant;
    let fr = |tag: u32, v: u8| Bytes::new(video_frame_variant(codec, true, true, tag, 5, v).0);
    let big = (2147483648.0 + 4500.0) / 90000.0;
    let a = match manner {
        0 => Some(Op::WV { pts: T(-1.0), data: fr(1, va), key: true }),
        1 => Some(Op::WV { pts: T(f64::NAN), data: fr(1, va), key: true }),
        2 => Some(Op::WVD { pts: T(big), dts: T(0.0), data: fr(1, va), key: true }),
        3 => Some(Op::WV { pts: T(0.0), data: fr(1, va), key: false }),
        4 => Some(Op::WVD { pts: T(0.0), dts: T(f64::INFINITY), data: fr(1, va), key: true }),
        5 => Some(Op::WVD { pts: T(0.0), dts: T(big), data: fr(1, va), key: true }),
        _ => None,
    };
    let b = Op::WV { pts: T(0.5), data: fr(2, vb), key: true };
    let c = Op::WV { pts: T(1.0), data: fr(3, vc), key: true };
    let mut ops: Vec<Op> = a.into_iter().collect();
    ops.push(b);
    ops.push(c);
    let cfg = Cfg::basic(codec, None, (va + vb) % 2 == 0);
    let ex = run_finished(&cfg, &ops);
    t.evaluations += 1;
    let case = || json!({"engine": "E2-c07-history", "codec": codec, "manner": manner, "variants": [va, vb, vc]});
    if let Some((i, m)) = ex.panicked() {
        t.violation("C07/history/panic", order, || format!("{codec:?}: call {i} panicked: {m}"), case);
        return;
    }
    let Some(first_ok) = (0..ops.len()).find(|&i| ex.results[i].is_ok()) else {
        t.count("history_all_rejected", 1);
        return;
    };
    if first_ok > 0 {
        t.count("history_with_rejected_first_attempt", 1);
    }
    if !ex.results.last().unwrap().is_ok() {
        t.violation("C07/history/finish-failed", order, || format!("{codec:?} manner {manner}: finish failed: {}", ex.results.last().unwrap().brief()), case);
        return;
    }
    // reference: the first accepted keyframe alone (timestamps do not enter the sample entry)
    let alone = run_finished(&cfg, &ops[first_ok..first_ok + 1]);
    let (m1, m2) = (parse_movie(&ex.bytes, "prog"), parse_movie(&alone.bytes, "prog"));
    match (first_entry(&m1, true), first_entry(&m2, true)) {
        (Some(e1), Some(e2)) => {
            t.outcome(oracle::report::h64(&e1.raw) ^ manner as u64);
            if e1.raw != e2.raw {
                t.violation("C07/history/config-not-from-first-accepted-keyframe", order, || format!("{codec:?}: history [{}] yields sample entry {:?}; its first accepted keyframe alone yields {:?}", oracle::model::brief_ops(&ops), e1.cfg, e2.cfg), case);
            }
        }
        (x, y) => t.violation("C07/history/no-sample-entry", order, || format!("{:?} / {:?}", x.is_some(), y.is_some()), case),
    }
}

enum Item {
    History(VCodec),
    /// first parameter set of one type oversized (65536 / 70000 bytes), a normal one of the same type after it
    Oversized,
    Nal(VCodec, Vec<Vec<usize>>),
    Av1(Vec<SeqHdr>, bool),
    Vp9(Vec<Vp9Hdr>),
    Audio(Vec<(ACodec, u32, u16)>),
    Init(Vec<FCfg>),
    Stray,
}

fn unit_lists(n_alpha: usize, max: usize) -> Vec<Vec<usize>> {
    let mut out = vec![];
    let mut frontier: Vec<Vec<usize>> = vec![vec![]];
    for _ in 0..max {
        let mut next = vec![];
        for l in &frontier {
            for a in 0..n_alpha {
                let mut l2 = l.clone();
                l2.push(a);
                next.push(l2);
            }
        }
        out.extend(next.iter().cloned());
        frontier = next;
    }
    out
}

pub fn check(ctx: &Ctx) -> i32 {
    let max_units = if ctx.thorough { 5 } else { 4 };
    let mut items = vec![];
    for codec in [VCodec::H264, VCodec::H265] {
        let lists = unit_lists(nal_alphabet(codec).len(), max_units);
        for ch in lists.chunks(400) {
            items.push(Item::Nal(codec, ch.to_vec()));
        }
    }
    let headers = av1_headers(ctx.thorough);
    let n_av1 = headers.len();
    for ch in headers.chunks(2000) {
        items.push(Item::Av1(ch.to_vec(), ctx.thorough));
    }
    let vp9 = vp9_headers();
    let n_vp9 = vp9.len();
    for ch in vp9.chunks(500) {
        items.push(Item::Vp9(ch.to_vec()));
    }
    let mut audio = vec![];
    for &c in &oracle::frames::ACODECS {
        let rates: Vec<u32> = if c.is_aac() { AAC_RATES.iter().copied().chain([22000, 50000, 65535]).collect() } else { vec![48000, 44100] };
        for r in rates {
            for ch in 1..=8u16 {
                if c.is_aac() && ch > 6 {
                    continue;
                }
                audio.push((c, r, ch));
            }
        }
    }
    let n_audio = audio.len();
    items.push(Item::Audio(audio));
    let mut inits = vec![];
    for &codec in &oracle::frames::VCODECS {
        for via in [true, false] {
            for ps in [0usize, 1, 4, 255, 256] {
                for (w, h) in [(320u32, 240u32), (1920, 1080), (65535, 65535)] {
                    inits.push(FCfg { codec, via_builder: via, timescale: 90000, fragment_ms: 2000, start_dts: 0, width: w, height: h, ps_len: ps });
                }
            }
        }
    }
    let n_init = inits.len();
    items.push(Item::Init(inits));
    items.push(Item::Stray);
    for &codec in &oracle::frames::VCODECS {
        items.push(Item::History(codec));
    }
    items.push(Item::Oversized);

    let tally = par_items(&items, ctx.seed, |idx, it, t| match it {
        Item::Nal(codec, lists) => {
            let alpha = nal_alphabet(*codec);
            for (k, l) in lists.iter().enumerate() {
                let units: Vec<Vec<u8>> = l.iter().map(|&i| alpha[i].1.clone()).collect();
                for variant in 0..12 {
                    judge_nal_frame(*codec, &units, variant, (idx as u64, (k * 12 + variant) as u64), t);
                }
            }
        }
        Item::Av1(hs, full) => {
            for (k, h) in hs.iter().enumerate() {
                for layout in 0..LAYOUTS {
                    judge_av1_parser(h, layout, (idx as u64, (k * 16 + layout) as u64), t);
                }
                // the complete path (muxer, finish, reader): every header in the thorough tier;
                // in the quick tier every header whose timing/operating-point section or tools
                // section is at its default (all values of every field still occur)
                let d = SeqHdr::default().normalised();
                let through = *full || (h.timing == d.timing && h.op_count == d.op_count && h.display_delay == d.display_delay) || (h.frame_id == d.frame_id && h.order_hint == d.order_hint && h.choose_screen == d.choose_screen && h.color_desc == d.color_desc && !h.high_bitdepth);
                if through {
                    judge_av1_file(h, k % LAYOUTS, (idx as u64, (k * 16 + 8) as u64), t);
                }
            }
        }
        Item::Vp9(hs) => {
            for (k, h) in hs.iter().enumerate() {
                judge_vp9(h, (idx as u64, k as u64), t);
            }
        }
        Item::Audio(v) => {
            for (k, (c, r, ch)) in v.iter().enumerate() {
                judge_audio(*c, *r, *ch, (idx as u64, k as u64), t);
            }
        }
        Item::Init(v) => {
            for (k, fc) in v.iter().enumerate() {
                judge_init(fc, (idx as u64, k as u64), t);
            }
        }
        Item::Stray => judge_stray(idx as u64, t),
        Item::Oversized => {
            let mut k = 0u64;
            for codec in [VCodec::H264, VCodec::H265] {
                let alpha = nal_alphabet(codec);
                let get = |n: &str| alpha.iter().find(|(x, _)| *x == n).map(|x| x.1.clone()).unwrap();
                let types: Vec<&str> = if codec == VCodec::H264 { vec!["SPS", "PPS"] } else { vec!["VPS", "SPS", "PPS"] };
                for big_ty in &types {
                    for big_len in [65535usize, 65536, 70000] {
                        for second_first in [false, true] {
                            let mut units: Vec<Vec<u8>> = vec![];
                            for ty in &types {
                                let a = get(&format!("{ty}a"));
                                if ty == big_ty {
                                    let mut big = a.clone();
                                    while big.len() < big_len {
                                        big.push(0x21 + (big.len() % 0xd0) as u8);
                                    }
                                    let small = get(&format!("{ty}b"));
                                    if second_first { units.push(small); units.push(big); } else { units.push(big); units.push(small); }
                                } else {
                                    units.push(a);
                                }
                            }
                            units.push(get("IDR"));
                            k += 1;
                            judge_nal_frame(codec, &units, 0, (idx as u64, k), t);
                        }
                    }
                }
            }
        }
        Item::History(codec) => {
            let mut k = 0u64;
            for manner in 0..7 {
                for va in 0..4u8 {
                    for vb in 0..4u8 {
                        for vc in 0..4u8 {
                            k += 1;
                            judge_cfg_history(*codec, manner, va, vb, vc, (idx as u64, k), t);
                        }
                    }
                }
            }
        }
    });
    let mut tally = tally;
    tally.sample(3, || json!({"av1_header_example": format!("{:?}", SeqHdr::default().normalised()), "payload": hex(&SeqHdr::default().normalised().payload())}));
    tally.sample(3, || json!({"nal_frame_example": "SPSa PPSb SEI IDR with alternating 3/4-byte start codes"}));
    finish(
        ctx,
        &tally,
        Meta {
            level: "exploration",
            rule: format!("H.264/H.265: every first keyframe that is a sequence of <= {max_units} NAL units over {{SPSa, SPSb, PPSa, PPSb, (VPSa, VPSb), IDR, SEI, AUD, non-IDR}} x 12 framings (start-code phase, leading garbage, trailing zeros; an empty unit in front of the first or second unit in either phase), muxed, finished, and the avcC/hvcC compared with the first parameter sets; keyframes whose first set of one type is 65535 / 65536 / 70000 bytes long with a normal second one of that type before or after it (refused, or the first one carried); AV1: {n_av1} syntactically valid sequence headers produced by a spec-5.5 bit writer (branch product of the header syntax{}) x {LAYOUTS} OBU layouts through extract_av1_config, and through muxer+finish+reader for {}; VP9: {n_vp9} headers of the accepted form x 5 continuations (compressed data, none, single flag-like bytes); audio: {n_audio} (codec, rate, channels) combinations; fragmented init segments: {n_init} builder/FragmentConfig combinations (parameter-set lengths 0, 1, 4, 255, 256; three dimensions); histories: per codec 7 kinds of first attempt (negative, NaN, overflowing composition offset, not a keyframe, infinite DTS, PTS far before DTS, none) x 4^3 configuration variants for (attempt, next keyframe, later keyframe), sample entry compared with the one of the first accepted keyframe alone. Expected values are known by construction (the generator wrote them). Distinct by the resulting sample entry bytes.", if ctx.thorough { ", full product" } else { ", every pair of sections in full product" }, if ctx.thorough { "every header" } else { "a section-default subset" }),
            bound: format!("<= {max_units} NAL units per keyframe; AV1 field domains as listed in DESIGN.md"),
            exhaustive: true,
            assumptions: vec!["the AV1 bit writer (oracle/src/frames.rs) follows AV1 spec 5.5; it is the source of truth for expected fields".into(), "vpcC values are judged positionally when the record is in muxide's 8-byte layout (the layout itself is C19's finding)".into()],
            extra: json!({}),
        },
    )
}

pub fn replay(case: &Value) -> i32 {
    let mut t = Tally::default();
    let unhex = |k: &str| oracle::model::unhex(case[k].as_str().unwrap_or("")).unwrap_or_default();
    match case["engine"].as_str() {
        Some("E2-c07-nal") => {
            let codec: VCodec = serde_json::from_value(case["codec"].clone()).unwrap();
            let frame = unhex("frame");
            let units: Vec<Vec<u8>> = oracle::refmodel::annexb_units(&frame).into_iter().filter(|u| !u.is_empty()).map(|u| u.to_vec()).collect();
            println!("{codec:?} frame {} = units {:?}", hex(&frame), units.iter().map(|u| hex(u)).collect::<Vec<_>>());
            // re-judge the exact bytes: framing variant 0 over the parsed units reproduces content
            let cfg = Cfg { width: 1920, height: 1080, ..Cfg::basic(codec, None, true) };
            match mux_first_frame(&cfg, &frame) {
                Ok(Some((_, m))) => println!("accepted; sample entry: {:?}", first_entry(&m, true).map(|e| &e.cfg)),
                o => println!("outcome: {:?}", o.map(|x| x.is_some())),
            }
            judge_nal_bytes(codec, &frame, case["fast"].as_bool().unwrap_or(true), (0, 0), &mut t);
        }
        Some("E2-c07-history") => {
            let codec: VCodec = serde_json::from_value(case["codec"].clone()).unwrap();
            let v: Vec<u8> = serde_json::from_value(case["variants"].clone()).unwrap();
            judge_cfg_history(codec, case["manner"].as_u64().unwrap() as usize, v[0], v[1], v[2], (0, 0), &mut t);
        }
        Some("E2-c07-av1") if case["header"].is_object() => {
            let h: SeqHdr = serde_json::from_value(case["header"].clone()).unwrap();
            let layout = case["layout"].as_u64().unwrap_or(0) as usize;
            println!("header {h:?}, layout {layout}");
            judge_av1_parser(&h, layout, (0, 0), &mut t);
            judge_av1_file(&h, layout, (0, 1), &mut t);
        }
        Some("E2-c07-av1") => {
            let frame = unhex("frame");
            println!("frame {}", hex(&frame));
            println!("extract_av1_config: {:?}", guarded(|| extract_av1_config(&frame)));
            println!("(expected field values are in the replay file's detail)");
            return 1;
        }
        Some("E2-c07-vp9") => {
            let frame = unhex("frame");
            let cfg = Cfg { width: 1280, height: 720, ..Cfg::basic(VCodec::Vp9, None, true) };
            match mux_first_frame(&cfg, &frame) {
                Ok(Some((_, m))) => println!("accepted; sample entry: {:?}", first_entry(&m, true).map(|e| &e.cfg)),
                o => println!("outcome: {:?}", o.map(|x| x.is_some())),
            }
            return 1;
        }
        Some("E2-c07-audio") => {
            let c: ACodec = serde_json::from_value(case["codec"].clone()).unwrap();
            judge_audio(c, case["rate"].as_u64().unwrap() as u32, case["channels"].as_u64().unwrap() as u16, (0, 0), &mut t);
        }
        Some("E2-c07-init") => {
            let fc: FCfg = serde_json::from_value(case["cfg"].clone()).unwrap();
            judge_init(&fc, (0, 0), &mut t);
        }
        _ => return 2,
    }
    if t.viol.is_empty() {
        println!("replay: property C07 holds for this case");
        0
    } else {
        for (s, f) in &t.viol {
            println!("replay: VIOLATION {s}: {}", f.detail);
        }
        1
    }
}
