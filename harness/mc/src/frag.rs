//! E5 - state-graph search of the fragmented muxer (C10, C11, and the fragmented clauses of C02
//! and C05). `FragmentedMuxer` derives Debug, so the complete implementation state is observable;
//! a reference model (FIFO of accepted samples, next sequence number, last DTS, timeline facts)
//! is stepped next to it.

use muxide::api::{MuxerBuilder, VideoCodec};
use muxide::codec::vp9::Vp9Config;
use muxide::fragmented::{FragmentConfig, FragmentedMuxer};
use oracle::frames::{self, body, VCodec};
use oracle::reader::{parse_movie, parse_segment, Class};
use oracle::report::{finish, guarded, par_items, Ctx, Fnv, Meta, Tally};
use serde::{Deserialize, Serialize};
use serde_json::{json, Value};
use std::collections::HashSet;

#[derive(Clone, Copy, Debug, PartialEq, Eq, Serialize, Deserialize)]
pub struct WSym {
    /// decode-time step relative to the last accepted DTS; -1 = one tick back (must be rejected)
    pub step: i64,
    pub off: i64,
    pub size: usize,
    pub sync: bool,
}

pub const WRITES: &[WSym] = &[
    WSym { step: 3000, off: 0, size: 5, sync: true },
    WSym { step: 3000, off: 3000, size: 300, sync: false },
    WSym { step: 0, off: -3000, size: 1, sync: false },
    WSym { step: 1, off: 3000, size: 0, sync: true },
    WSym { step: 3003, off: -3000, size: 5, sync: true },
    WSym { step: 100_000, off: 0, size: 1, sync: false },
    WSym { step: -1, off: 0, size: 40, sync: true },
    WSym { step: 1, off: 0, size: 40, sync: false },
    WSym { step: 3003, off: 3000, size: 1, sync: true },
    WSym { step: 100_000, off: -3000, size: 0, sync: true },
    WSym { step: 0, off: 0, size: 5, sync: true },
    WSym { step: 3000, off: -3000, size: 1, sync: true },
];

/// Timeline alphabet for the deeper C11 search: one symbol per decode-time step class.
pub const TIMELINE_WRITES: &[WSym] = &[
    WSym { step: 3000, off: 0, size: 5, sync: true },
    WSym { step: 3000, off: 3000, size: 9, sync: false },
    WSym { step: 0, off: -3000, size: 1, sync: false },
    // (a zero-length sample: it occupies its place on the timeline like any other)
    WSym { step: 1, off: 0, size: 0, sync: true },
    WSym { step: 3003, off: -3000, size: 5, sync: true },
    WSym { step: 100_000, off: 0, size: 1, sync: false },
    WSym { step: -1, off: 0, size: 2, sync: true },
];

/// Tick-level jitter alphabet for the deep C11 search: decode-time steps of 0, 1 and 2 ticks.
pub const JITTER_WRITES: &[WSym] = &[
    WSym { step: 1, off: 0, size: 1, sync: true },
    WSym { step: 0, off: 0, size: 1, sync: false },
    WSym { step: 2, off: 0, size: 0, sync: true },
];

#[derive(Clone, Debug, PartialEq, Eq, Serialize, Deserialize)]
pub enum FOp {
    Write { pts: u64, dts: u64, data: String, sync: bool },
    Flush,
    Ready,
    Dur,
    Init,
}

impl FOp {
    pub fn brief(&self) -> String {
        match self {
            FOp::Write { pts, dts, data, sync } => format!("w(p{pts},d{dts},{}B,{})", data.len() / 2, if *sync { "S" } else { "n" }),
            FOp::Flush => "flush".into(),
            FOp::Ready => "ready?".into(),
            FOp::Dur => "dur?".into(),
            FOp::Init => "init".into(),
        }
    }
}

pub fn brief(h: &[FOp]) -> String {
    h.iter().map(|o| o.brief()).collect::<Vec<_>>().join(" ")
}

#[derive(Clone, Debug, PartialEq, Eq, Serialize, Deserialize)]
pub struct FCfg {
    pub codec: VCodec,
    /// true = through MuxerBuilder::new_with_fragment, false = FragmentConfig directly
    pub via_builder: bool,
    pub timescale: u32,
    pub fragment_ms: u32,
    pub start_dts: u64,
    pub width: u32,
    pub height: u32,
    /// length of the supplied parameter sets (SPS/PPS/VPS) where the codec has them
    pub ps_len: usize,
}

pub fn sps_of(codec: VCodec, len: usize) -> Vec<u8> {
    let mut v = match codec {
        VCodec::H265 => frames::h265_sps(1),
        _ => frames::h264_sps(1),
    };
    v.truncate(len);
    while v.len() < len {
        v.push(0x10 + (v.len() % 200) as u8);
    }
    v
}
pub fn pps_of(codec: VCodec, len: usize) -> Vec<u8> {
    let mut v = match codec {
        VCodec::H265 => frames::h265_pps(1),
        _ => frames::h264_pps(1),
    };
    v.truncate(len);
    while v.len() < len {
        v.push(0x20 + (v.len() % 200) as u8);
    }
    v
}
pub fn vps_of(len: usize) -> Vec<u8> {
    let mut v = frames::h265_vps(1);
    v.truncate(len);
    while v.len() < len {
        v.push(0x30 + (v.len() % 200) as u8);
    }
    v
}

pub fn vp9cfg() -> Vp9Config {
    Vp9Config { width: 1280, height: 720, profile: 2, bit_depth: 10, color_space: 1, transfer_function: 1, matrix_coefficients: 1, level: 31, full_range_flag: 1 }
}

/// switched on by C11's check: reference init segments come from child processes
pub static REFERENCE_INITS: std::sync::atomic::AtomicBool = std::sync::atomic::AtomicBool::new(false);
static REF_CACHE: std::sync::Mutex<Option<std::collections::HashMap<String, Option<Vec<u8>>>>> = std::sync::Mutex::new(None);

/// child mode `mc --c11-init <cfg json>`: the init segment of the only muxer this process creates
pub fn child_init(cfg_json: &str) -> i32 {
    let Ok(cfg) = serde_json::from_str::<FCfg>(cfg_json) else { return 2 };
    match guarded(|| make(&cfg).map(|mut m| m.init_segment())) {
        Ok(Ok(init)) => {
            println!("{}", oracle::model::hex(&init));
            0
        }
        _ => 3,
    }
}

fn reference_init(cfg: &FCfg) -> Option<Vec<u8>> {
    if !REFERENCE_INITS.load(std::sync::atomic::Ordering::Relaxed) {
        return None;
    }
    let key = serde_json::to_string(cfg).ok()?;
    let mut g = REF_CACHE.lock().unwrap_or_else(|e| e.into_inner());
    let map = g.get_or_insert_with(Default::default);
    if let Some(v) = map.get(&key) {
        return v.clone();
    }
    let exe = std::env::current_exe().ok()?;
    let out = std::process::Command::new(exe).arg("--c11-init").arg(&key).stderr(std::process::Stdio::null()).output().ok();
    let v = out.filter(|o| o.status.success()).and_then(|o| oracle::model::unhex(String::from_utf8_lossy(&o.stdout).trim()));
    map.insert(key, v.clone());
    v
}

pub fn make(cfg: &FCfg) -> Result<FragmentedMuxer, String> {
    let seq = frames::av1_seq_obu(&frames::SeqHdr::default().normalised());
    if cfg.via_builder {
        let b = MuxerBuilder::new(Vec::<u8>::new());
        let b = match cfg.codec {
            VCodec::H264 => b.video(VideoCodec::H264, cfg.width, cfg.height, 30.0).with_sps(sps_of(cfg.codec, cfg.ps_len)).with_pps(pps_of(cfg.codec, cfg.ps_len)),
            VCodec::H265 => b.video(VideoCodec::H265, cfg.width, cfg.height, 30.0).with_vps(vps_of(cfg.ps_len)).with_sps(sps_of(cfg.codec, cfg.ps_len)).with_pps(pps_of(cfg.codec, cfg.ps_len)),
            VCodec::Av1 => b.video(VideoCodec::Av1, cfg.width, cfg.height, 30.0).with_av1_sequence_header(seq),
            VCodec::Vp9 => b.video(VideoCodec::Vp9, cfg.width, cfg.height, 30.0).with_vp9_config(vp9cfg()),
        };
        b.new_with_fragment().map_err(|e| format!("{e:?}"))
    } else {
        let mut c = FragmentConfig { width: cfg.width, height: cfg.height, timescale: cfg.timescale, fragment_duration_ms: cfg.fragment_ms, ..Default::default() };
        match cfg.codec {
            VCodec::H264 => {
                c.sps = sps_of(cfg.codec, cfg.ps_len);
                c.pps = pps_of(cfg.codec, cfg.ps_len);
            }
            VCodec::H265 => {
                c.sps = sps_of(cfg.codec, cfg.ps_len);
                c.pps = pps_of(cfg.codec, cfg.ps_len);
                c.vps = Some(vps_of(cfg.ps_len));
            }
            VCodec::Av1 => c.av1_sequence_header = Some(seq),
            VCodec::Vp9 => c.vp9_config = Some(vp9cfg()),
        }
        Ok(FragmentedMuxer::new(c))
    }
}

pub fn configs(thorough: bool) -> Vec<FCfg> {
    let mut v = vec![];
    for &codec in &oracle::frames::VCODECS {
        for start in [0u64, 9000] {
            v.push(FCfg { codec, via_builder: true, timescale: 90000, fragment_ms: 2000, start_dts: start, width: 640, height: 480, ps_len: 10 });
        }
    }
    v.push(FCfg { codec: VCodec::H264, via_builder: false, timescale: 1000, fragment_ms: 100, start_dts: 0, width: 1920, height: 1080, ps_len: 4 });
    if thorough {
        v.push(FCfg { codec: VCodec::H265, via_builder: false, timescale: 48000, fragment_ms: 1, start_dts: 9000, width: 320, height: 240, ps_len: 300 });
    }
    v
}

// ---------------------------------------------------------------------------------------------
// reference model
// ---------------------------------------------------------------------------------------------

#[derive(Clone, Debug, PartialEq, Eq, Hash)]
pub struct RSample {
    pub pts: u64,
    pub dts: u64,
    pub data: Vec<u8>,
    pub sync: bool,
}

#[derive(Clone, Debug, PartialEq, Eq, Hash)]
pub struct PrevSeg {
    pub tfdt: u64,
    /// sum of the durations of all samples but the last
    pub span_but_last: u64,
    pub last_dts: u64,
    pub first_dts: u64,
}

#[derive(Clone, Debug, Default, PartialEq, Eq, Hash)]
pub struct RefModel {
    pub fifo: Vec<RSample>,
    pub next_seq: u32,
    pub last_dts: Option<u64>,
    pub init: Option<Vec<u8>>,
    pub prev: Option<PrevSeg>,
    /// Some(step) while all accepted DTS steps so far are equal (None before the second sample)
    pub const_step: Option<Option<u64>>,
    /// all emitted segments held >= 2 samples
    pub all_multi: bool,
    /// tfdt - first dts of the first emitted segment
    pub base_const: Option<i128>,
    pub emitted: u64,
    pub accepted: u64,
}

impl RefModel {
    pub fn new() -> RefModel {
        RefModel { next_seq: 1, const_step: Some(None), all_multi: true, ..Default::default() }
    }
    pub fn digest(&self) -> u64 {
        use std::hash::{Hash, Hasher};
        let mut h = std::collections::hash_map::DefaultHasher::new();
        self.hash(&mut h);
        h.finish()
    }
}

pub type Issue = (&'static str, String, String); // (property, signature, detail)

fn unhex(s: &str) -> Vec<u8> {
    oracle::model::unhex(s).unwrap_or_default()
}

fn dbg(m: &FragmentedMuxer) -> String {
    format!("{m:?}")
}

/// Apply one operation to the real muxer and the model, collecting every disagreement.
pub fn step(m: &mut FragmentedMuxer, r: &mut RefModel, cfg: &FCfg, op: &FOp, out: &mut Vec<Issue>) {
    match op {
        FOp::Write { pts, dts, data, sync } => {
            let bytes = unhex(data);
            let should_reject = r.last_dts.map(|l| *dts < l).unwrap_or(false);
            // the state snapshot (derived Debug, linear in the queue) is taken whenever a
            // rejection is due, and for every write while the queue is short; the 66 000-sample
            // fragments of the scaling family would otherwise cost quadratic time
            let before = if should_reject || r.fifo.len() <= 512 { dbg(m) } else { String::new() };
            let res = m.write_video(*pts, *dts, &bytes, *sync);
            match (&res, should_reject) {
                (Ok(()), true) => out.push(("C10", "write/accepted-decreasing-dts".into(), format!("dts {dts} accepted after {:?}", r.last_dts))),
                (Err(e), false) => out.push(("C10", "write/rejected-valid".into(), format!("dts {dts} after {:?} rejected: {e:?}", r.last_dts))),
                _ => {}
            }
            if res.is_err() {
                if !before.is_empty() && dbg(m) != before {
                    out.push(("C10", "write/rejected-write-changed-state".into(), format!("state before: {before} after: {}", dbg(m))));
                    out.push(("C05", "frag/rejected-write-changed-state".into(), format!("rejected write (dts {dts} after {:?}) altered the muxer state", r.last_dts)));
                }
            } else {
                // model follows the implementation's decision
                if let Some(l) = r.last_dts {
                    let st = dts.wrapping_sub(l);
                    r.const_step = match r.const_step {
                        Some(None) => Some(Some(st)),
                        Some(Some(s)) if s == st => Some(Some(s)),
                        _ => None,
                    };
                }
                r.last_dts = Some(*dts);
                r.fifo.push(RSample { pts: *pts, dts: *dts, data: bytes, sync: *sync });
                r.accepted += 1;
            }
        }
        FOp::Flush => {
            let before = dbg(m);
            let seg = m.flush_segment();
            match (&seg, r.fifo.is_empty()) {
                (None, false) => {
                    out.push(("C10", "flush/none-with-queued-samples".into(), format!("{} samples queued", r.fifo.len())));
                    r.fifo.clear();
                }
                (Some(_), true) => out.push(("C10", "flush/segment-from-empty-queue".into(), "a segment was produced with nothing queued".into())),
                (None, true) => {
                    if dbg(m) != before {
                        out.push(("C10", "flush/empty-flush-changed-state".into(), format!("before {before} after {}", dbg(m))));
                    }
                }
                _ => {}
            }
            if let Some(seg) = seg {
                check_segment(&seg, r, cfg, out);
                r.fifo.clear();
                r.next_seq += 1;
                r.emitted += 1;
            }
        }
        FOp::Ready | FOp::Dur => {
            let before = dbg(m);
            let span = if r.fifo.len() >= 2 { r.fifo.last().unwrap().dts.saturating_sub(r.fifo[0].dts) } else { 0 };
            let ms = if cfg.timescale == 0 { 0 } else { (span as u128 * 1000 / cfg.timescale as u128) as u64 };
            if matches!(op, FOp::Ready) {
                let got = m.ready_to_flush();
                let want = r.fifo.len() >= 2 && ms >= cfg.fragment_ms as u64;
                if got != want {
                    out.push(("C10", "ready/wrong".into(), format!("ready_to_flush = {got}, {} queued spanning {span} ticks = {ms} ms, target {} ms", r.fifo.len(), cfg.fragment_ms)));
                }
            } else {
                let got = m.current_fragment_duration_ms();
                if got != ms {
                    out.push(("C10", "duration/wrong".into(), format!("current_fragment_duration_ms = {got}, queued span {span} ticks = {ms} ms")));
                }
            }
            if dbg(m) != before {
                out.push(("C10", "query-changed-state".into(), format!("{} altered the muxer state", op.brief())));
            }
        }
        FOp::Init => {
            let before_first = r.init.is_none();
            let before = dbg(m);
            let init = m.init_segment();
            match &r.init {
                None => {
                    check_init(&init, cfg, out);
                    // "no matter when": the first answer of this muxer, whatever happened before
                    // the request, equals the answer of a fresh muxer with the same configuration
                    if let Ok(mut fresh) = make(cfg) {
                        let want = fresh.init_segment();
                        if init != want {
                            let pos = want.iter().zip(&init).position(|(a, b)| a != b).unwrap_or(want.len().min(init.len()));
                            out.push(("C11", "init/depends-on-request-time".into(), format!("the init segment first requested at this point differs from the one a fresh muxer returns at byte {pos} (lengths {} / {})", init.len(), want.len())));
                        }
                    }
                    // ... and the answer of a muxer with this configuration in a process of its
                    // own, where no other muxer was ever created (state shared between objects)
                    if let Some(want) = reference_init(cfg) {
                        if init != want {
                            let pos = want.iter().zip(&init).position(|(a, b)| a != b).unwrap_or(want.len().min(init.len()));
                            out.push(("C11", "init/depends-on-other-muxers".into(), format!("the init segment differs at byte {pos} from the one the same configuration yields in a fresh process (lengths {} / {})", init.len(), want.len())));
                        }
                    }
                    r.init = Some(init);
                }
                Some(first) => {
                    if &init != first {
                        let pos = first.iter().zip(&init).position(|(a, b)| a != b).unwrap_or(first.len().min(init.len()));
                        out.push(("C11", "init/not-stable".into(), format!("init segment differs from the first answer at byte {pos} (lengths {} / {})", first.len(), init.len())));
                    }
                    if !before_first && dbg(m) != before {
                        out.push(("C10", "query-changed-state".into(), "repeated init_segment() altered the muxer state".into()));
                    }
                }
            }
        }
    }
}

fn check_init(init: &[u8], cfg: &FCfg, out: &mut Vec<Issue>) {
    let m = parse_movie(init, "init");
    for p in m.probs.of(&[Class::Tile, Class::Mandatory, Class::Count]) {
        out.push(("C02", format!("init/{}", p.sig.trim_start_matches('/')), p.detail.clone()));
    }
    if m.tracks.len() != 1 {
        out.push(("C02", "init/track-count".into(), format!("{} tracks", m.tracks.len())));
    }
    let tid = m.tracks.first().map(|t| t.tkhd.track_id).unwrap_or(1);
    if !m.trex.iter().any(|t| t.track_id == tid) {
        out.push(("C02", "init/no-trex-for-track".into(), format!("no movie-extends entry for track {tid}")));
    }
    if let Some(t) = m.tracks.first() {
        if !t.stsz.is_empty() || !t.stco.is_empty() {
            out.push(("C02", "init/non-empty-tables".into(), "sample tables of an init segment describe samples".into()));
        }
    }
    let _ = cfg;
}

fn check_segment(seg: &[u8], r: &mut RefModel, _cfg: &FCfg, out: &mut Vec<Issue>) {
    let s = parse_segment(seg);
    for p in s.probs.of(&[Class::Tile, Class::Mandatory, Class::Count]) {
        out.push(("C02", format!("segment/{}", p.sig), p.detail.clone()));
    }
    if s.seq != r.next_seq {
        out.push(("C10", "segment/sequence-number".into(), format!("mfhd sequence {} but this is emission #{}", s.seq, r.next_seq)));
    }
    let n = r.fifo.len();
    if s.samples.len() != n {
        out.push(("C10", "segment/sample-count".into(), format!("trun describes {} samples, {} were queued", s.samples.len(), n)));
        // with another number of samples the run's decode-time differences cannot be the
        // submitted ones either
        out.push(("C11", "segment/decode-time-differences-missing".into(), format!("trun has {} entries for {} accepted samples: the submitted decode-time differences are not all present", s.samples.len(), n)));
        r.prev = None;
        return;
    }
    // C10: sizes, bytes located through data_offset relative to the start of the moof
    let Some(off) = s.data_offset else {
        out.push(("C10", "segment/no-data-offset".into(), "trun has no data_offset".into()));
        return;
    };
    let mut pos = s.moof.0 as i64 + off as i64;
    for (i, (ts, q)) in s.samples.iter().zip(&r.fifo).enumerate() {
        let size = ts.size.unwrap_or(0) as usize;
        if ts.size.is_none() || size != q.data.len() {
            out.push(("C10", "segment/sample-size".into(), format!("sample {i}: trun size {:?}, submitted {} bytes", ts.size, q.data.len())));
            break;
        }
        let (a, b) = (pos as usize, pos as usize + size);
        if pos < 0 || b > seg.len() || seg[a..b] != q.data[..] {
            out.push(("C10", "segment/sample-bytes".into(), format!("sample {i}: bytes at moof+{} do not equal the submitted sample", a as i64 - s.moof.0 as i64)));
            break;
        }
        if a < s.mdat_payload.0 || b > s.mdat_payload.1 {
            out.push(("C10", "segment/sample-outside-mdat".into(), format!("sample {i} at {a}..{b}, mdat payload {:?}", s.mdat_payload)));
            break;
        }
        pos += size as i64;
    }
    let cat: Vec<u8> = r.fifo.iter().flat_map(|q| q.data.iter().copied()).collect();
    if s.mdat_payload.1 <= seg.len() && seg[s.mdat_payload.0..s.mdat_payload.1] != cat[..] {
        out.push(("C10", "segment/mdat-not-concatenation".into(), format!("mdat payload ({} bytes) is not the concatenation of the queued samples ({} bytes)", s.mdat_payload.1 - s.mdat_payload.0, cat.len())));
    }
    // C11: per-sample timing and flags
    let mut durs: Vec<u64> = vec![];
    for (i, (ts, q)) in s.samples.iter().zip(&r.fifo).enumerate() {
        let d = ts.dur.map(|x| x as u64);
        let want = if i + 1 < n {
            Some(r.fifo[i + 1].dts - q.dts)
        } else if n >= 2 {
            Some(q.dts - r.fifo[i - 1].dts)
        } else {
            None // a lone sample's duration is unknowable
        };
        if let (Some(w), true) = (want, want.map(|w| w <= u32::MAX as u64).unwrap_or(false)) {
            if d != Some(w) {
                out.push(("C11", "segment/sample-duration".into(), format!("sample {i}: trun duration {d:?}, decode times differ by {w}")));
                if i + 1 < n {
                    // a reader places the next sample at the base decode time plus the durations
                    // before it: that sample is described with another decode time than was accepted
                    out.push(("C10", "segment/sample-altered/decode-time".into(), format!("sample {}: a reader adding up the trun durations places it {d:?} after sample {i}, the accepted writes are {w} apart", i + 1)));
                }
            }
        }
        durs.push(d.unwrap_or(0));
        let cts = q.pts as i128 - q.dts as i128;
        if cts.abs() < (1i128 << 31) && ts.cts.map(|c| c as i128) != Some(cts) {
            out.push(("C11", "segment/composition-offset".into(), format!("sample {i}: trun offset {:?}, pts-dts = {cts}", ts.cts)));
            // the sample a reader reconstructs differs from the accepted write ("altered")
            out.push(("C10", "segment/sample-altered/presentation-time".into(), format!("sample {i}: a reader following the trun version and flags gets pts-dts = {:?}, the accepted write had {cts}", ts.cts)));
        }
        match ts.flags {
            Some(f) => {
                let non_sync = f & 0x0001_0000 != 0;
                if non_sync == q.sync {
                    out.push(("C11", "segment/sync-flag".into(), format!("sample {i}: flags {f:#x} (non-sync={non_sync}) but submitted sync={}", q.sync)));
                    out.push(("C10", "segment/sample-altered/sync-flag".into(), format!("sample {i}: flags {f:#x} but submitted sync={}", q.sync)));
                }
            }
            None => out.push(("C11", "segment/no-sample-flags".into(), format!("sample {i} has no flags"))),
        }
    }
    // C11: timeline across segments
    let first_dts = r.fifo[0].dts;
    let last_dts = r.fifo[n - 1].dts;
    let span_but_last: u64 = durs[..n - 1].iter().sum();
    if let Some(p) = &r.prev {
        if s.base_decode_time < p.tfdt {
            out.push(("C11", "timeline/tfdt-moved-backwards".into(), format!("base decode time {} after {}", s.base_decode_time, p.tfdt)));
        } else if s.base_decode_time < p.tfdt + p.span_but_last {
            out.push(("C11", "timeline/tfdt-before-previous-last-sample".into(), format!("base decode time {} but the previous segment's last sample decodes at {} (its base {} + {})", s.base_decode_time, p.tfdt + p.span_but_last, p.tfdt, p.span_but_last)));
        }
    }
    if n < 2 {
        r.all_multi = false;
    }
    let c = s.base_decode_time as i128 - first_dts as i128;
    if let (Some(Some(_)), true) = (r.const_step, r.all_multi) {
        match r.base_const {
            None => r.base_const = Some(c),
            Some(c0) if c0 != c => out.push(("C11", "timeline/constant-interval-offset-drifts".into(), format!("constant-interval stream: base decode time - first sample DTS is {c} here, {c0} for the first segment"))),
            _ => {}
        }
    }
    r.prev = Some(PrevSeg { tfdt: s.base_decode_time, span_but_last, last_dts, first_dts });
}

/// Concrete call for write symbol `w` at history position `pos`.
pub fn concretize(w: &WSym, r: &RefModel, cfg: &FCfg, pos: usize, widx: usize) -> Option<FOp> {
    let dts = match r.last_dts {
        None => {
            if w.step < 0 {
                return None;
            }
            cfg.start_dts
        }
        Some(l) => {
            if w.step < 0 {
                if l == 0 {
                    return None;
                }
                l - 1
            } else {
                l + w.step as u64
            }
        }
    };
    let pts = if w.off < 0 { if dts >= (-w.off) as u64 { dts - (-w.off) as u64 } else { dts } } else { dts + w.off as u64 };
    let data = body((pos * 16 + widx) as u32, w.size);
    Some(FOp::Write { pts, dts, data: oracle::model::hex(&data), sync: w.sync })
}

pub fn replay_history(cfg: &FCfg, h: &[FOp]) -> Result<(FragmentedMuxer, RefModel, Vec<Issue>), String> {
    let mut m = make(cfg)?;
    let mut r = RefModel::new();
    let mut issues = vec![];
    for op in h {
        step(&mut m, &mut r, cfg, op, &mut issues);
    }
    Ok((m, r, issues))
}

struct Search<'a> {
    cfg: &'a FCfg,
    prop: &'a str,
    writes: &'a [WSym],
    depth: usize,
    seen: HashSet<(u64, u64)>,
    item: u64,
    counter: u64,
}

fn state_key(m: &FragmentedMuxer, r: &RefModel, depth: usize) -> (u64, u64) {
    let d = dbg(m);
    let mut h = Fnv::new();
    h.str(&d).u64(depth as u64);
    (h.0, r.digest())
}

impl<'a> Search<'a> {
    fn report(&mut self, t: &mut Tally, h: &[FOp], issues: Vec<Issue>) {
        for (p, sig, detail) in issues {
            if p != self.prop {
                continue;
            }
            self.counter += 1;
            let cfg = self.cfg;
            t.violation(&format!("{p}/{sig}"), (self.item, self.counter), || format!("{:?} start {} | {} | {}", cfg.codec, cfg.start_dts, brief(h), detail), || json!({"engine": "E5", "cfg": cfg, "history": h, "brief": brief(h)}));
        }
    }

    /// Visit the state reached by `h` (already validated up to its last operation).
    fn visit(&mut self, h: &mut Vec<FOp>, t: &mut Tally) {
        let built = guarded(|| replay_history(self.cfg, h));
        let (mut m, mut r, _) = match built {
            Ok(Ok(x)) => x,
            Ok(Err(e)) => {
                t.count("builder_errors", 1);
                let _ = e;
                return;
            }
            Err(p) => {
                self.report(t, h, vec![(if self.prop == "C11" { "C11" } else { "C10" }, "panic".into(), p)]);
                return;
            }
        };
        let key = state_key(&m, &r, h.len());
        if !self.seen.insert(key) {
            t.count("merged_states", 1);
            return;
        }
        t.states += 1;
        t.outcome(key.0 ^ key.1.rotate_left(17));
        if h.len() <= 3 {
            t.sample(3, || json!({"config": format!("{:?}", self.cfg), "history": brief(h), "queued": r.fifo.len(), "next_sequence": r.next_seq}));
        }
        // self-loop operations: queries, repeated init, rejected writes, empty flush; they must
        // not change the state (checked inside step), so they are applied on the live object
        let mut loops: Vec<FOp> = vec![FOp::Ready, FOp::Dur];
        if r.init.is_some() {
            loops.push(FOp::Init);
        }
        if r.fifo.is_empty() {
            loops.push(FOp::Flush);
        }
        let mut extending: Vec<FOp> = vec![];
        let mut changed_loops: Vec<FOp> = vec![];
        for (wi, w) in self.writes.iter().enumerate() {
            if let Some(op) = concretize(w, &r, self.cfg, h.len(), wi) {
                if w.step < 0 {
                    loops.push(op);
                } else {
                    extending.push(op);
                }
            }
        }
        if !r.fifo.is_empty() {
            extending.push(FOp::Flush);
        }
        if r.init.is_none() {
            extending.push(FOp::Init);
        }
        for op in loops {
            let mut issues = vec![];
            let before_loop = dbg(&m);
            let res = guarded(|| step(&mut m, &mut r, self.cfg, &op, &mut issues));
            if res.is_ok() && dbg(&m) != before_loop && !matches!(op, FOp::Init) {
                // an operation that must not change the state did change it: besides reporting
                // that (inside step), explore the state it leads to like any other transition
                changed_loops.push(op.clone());
            }
            t.transitions += 1;
            t.evaluations += 1;
            h.push(op);
            if let Err(p) = res {
                issues.push((if self.prop == "C11" { "C11" } else { "C10" }, "panic".into(), p));
            }
            self.report(t, h, issues);
            h.pop();
        }
        // after all the operations that must not have changed anything, a flush of the live
        // object must still produce exactly the queued samples (catches hidden counters that a
        // rejected write or a query disturbed)
        if !r.fifo.is_empty() {
            let mut r2 = r.clone();
            let mut issues = vec![];
            let res = guarded(|| step(&mut m, &mut r2, self.cfg, &FOp::Flush, &mut issues));
            t.transitions += 1;
            h.push(FOp::Flush);
            if let Err(p) = res {
                issues.push((if self.prop == "C11" { "C11" } else { "C10" }, "panic".into(), p));
            }
            // the history shown omits the self-loop operations executed before this flush
            let tagged: Vec<Issue> = issues.into_iter().map(|(p, s, d)| (p, format!("after-self-loops/{s}"), format!("(after queries / rejected writes on the same object) {d}"))).collect();
            self.report(t, h, tagged);
            h.pop();
        }
        if h.len() >= self.depth {
            t.traces += 1;
            return;
        }
        drop(m);
        extending.extend(changed_loops);
        for op in extending {
            // fresh object: replay the history, then take the transition under test
            let res = guarded(|| {
                let (mut m2, mut r2, _) = replay_history(self.cfg, h).expect("replay");
                let mut issues = vec![];
                step(&mut m2, &mut r2, self.cfg, &op, &mut issues);
                issues
            });
            t.transitions += 1;
            t.evaluations += 1;
            h.push(op);
            match res {
                Ok(issues) => {
                    let bad = issues.iter().any(|i| i.0 == self.prop);
                    self.report(t, h, issues);
                    let _ = bad;
                    self.visit(h, t);
                }
                Err(p) => self.report(t, h, vec![(if self.prop == "C11" { "C11" } else { "C10" }, "panic".into(), p)]),
            }
            h.pop();
        }
    }
}

pub fn collect(ctx: &Ctx, prop: &'static str) -> (Tally, Meta) {
    let (mut tally, meta) = collect_run(ctx, prop, None);
    if prop == "C11" {
        // second run: tick-level jitter (steps 0/1/2) much deeper, on two configurations
        let depth = if ctx.thorough { 12 } else { 9 };
        let (t2, _) = collect_run(ctx, prop, Some((JITTER_WRITES, depth)));
        tally.count("jitter_search_states", t2.states);
        tally.merge(t2);
    }
    let mut meta = meta;
    if prop == "C11" {
        meta.rule = format!("{} Second search: decode-time steps {{0, 1, 2}} ticks + flush + init to depth {} on the H.264 builder configuration with start DTS 0 and 9000 (tick-level jitter around segment boundaries).", meta.rule, if ctx.thorough { 12 } else { 9 });
    }
    (tally, meta)
}

fn collect_run(ctx: &Ctx, prop: &'static str, over: Option<(&'static [WSym], usize)>) -> (Tally, Meta) {
    let (writes, depth): (&[WSym], usize) = if let Some(o) = over { o } else { match (ctx.thorough, prop) {
        (true, "C11") => (TIMELINE_WRITES, 8),
        (false, "C11") => (TIMELINE_WRITES, 6),
        (true, _) => (WRITES, 6),
        (false, "C10") => (WRITES, 5),
        (false, _) => (WRITES, 4),
    } };
    let mut cfgs = configs(ctx.thorough);
    if over.is_some() {
        cfgs.retain(|c| c.codec == VCodec::H264 && c.via_builder);
    }
    // work items: (config, first extending operation index) to spread over cores
    let mut items: Vec<(FCfg, usize)> = vec![];
    for c in &cfgs {
        for first in 0..(writes.len() + 1) {
            items.push((c.clone(), first));
        }
    }
    let tally = par_items(&items, ctx.seed, |idx, (cfg, first), t| {
        let mut s = Search { cfg, prop, writes, depth, seen: HashSet::new(), item: idx as u64, counter: 0 };
        let r0 = RefModel::new();
        let mut h: Vec<FOp> = vec![];
        if *first == writes.len() {
            // the root itself (its self-loops) and the branch starting with init
            s.depth = 0;
            s.visit(&mut h, t);
            s.depth = depth;
            s.seen.clear();
            h.push(FOp::Init);
            let pre = guarded(|| replay_history(cfg, &h[..0]).map(|(mut m, mut r, _)| {
                let mut issues = vec![];
                step(&mut m, &mut r, cfg, &FOp::Init, &mut issues);
                issues
            }));
            t.transitions += 1;
            if let Ok(Ok(issues)) = pre {
                s.report(t, &h, issues);
            }
            s.visit(&mut h, t);
        } else if let Some(op) = concretize(&writes[*first], &r0, cfg, 0, *first) {
            let pre = guarded(|| replay_history(cfg, &[]).map(|(mut m, mut r, _)| {
                let mut issues = vec![];
                step(&mut m, &mut r, cfg, &op, &mut issues);
                issues
            }));
            t.transitions += 1;
            h.push(op);
            match pre {
                Ok(Ok(issues)) => s.report(t, &h, issues),
                Ok(Err(_)) => return,
                Err(p) => {
                    s.report(t, &h, vec![("C10", "panic".into(), p)]);
                    return;
                }
            }
            s.visit(&mut h, t);
        }
    });
    let what = match prop {
        "C10" => "write accepted iff DTS not below the last accepted one, rejected writes and empty flushes leave the Debug state unchanged, flush returns None iff nothing is queued, mfhd sequence numbers 1,2,3..., trun sample count/sizes and the bytes found through data_offset equal the FIFO of accepted samples, mdat is exactly their concatenation, ready_to_flush / current_fragment_duration_ms equal the reference predicate",
        "C11" => "trun durations = submitted DTS differences (last = previous), composition offsets = pts - dts, non-sync flag = not sync; base decode time never moves backwards nor before the previous segment's last sample; constant-interval streams with >= 2 samples per segment keep base - first DTS constant; init segment byte-identical on every request and, at its first request after any history, identical to a fresh muxer's and to the one the same configuration yields in a process of its own",
        "C02" => "every init segment and media segment parses strictly (exact tiling, mandatory hierarchy, count consistency, trex for the track, moof{mfhd,traf{tfhd,tfdt,trun}} + mdat)",
        _ => "rejected fragmented writes leave the complete Debug state unchanged",
    };
    let meta = Meta {
            level: "model_checking",
            rule: format!("state-graph search of FragmentedMuxer: from every reachable state (reached by replaying its history on a fresh object) every operation of the alphabet {{{} relative writes (dts step x pts offset x size x sync), flush, ready_to_flush, current_fragment_duration_ms, init_segment}} is executed with a reference model in lock-step; operations that must not change the state (queries, repeated init, rejected writes, empty flush) are checked for Debug-state equality and not extended; states are merged on (Debug output, model digest, depth). Oracle: {what}. {} configurations (4 codecs via the builder x start DTS {{0, 9000}}, plus direct FragmentConfig).", writes.len(), cfgs.len()),
            bound: format!("<= {depth} state-changing operations per history; every self-loop operation at every state"),
            exhaustive: true,
            assumptions: vec!["equal derived Debug output means equal fields, hence equal futures (determinism is C17's business)".into(), "the independent reader is trusted".into()],
            extra: json!({"depth": depth, "configurations": cfgs.len()}),
    };
    (tally, meta)
}

/// Scaling family for the fragmented muxer: fragments of n samples for every n up to a bound
/// (long trun tables, payload sizes across 64 KiB), three step patterns, two flush cadences.
fn scaling(ctx: &Ctx, prop: &'static str) -> Tally {
    let max = if ctx.thorough { 200 } else { 80 };
    let cfgs: Vec<FCfg> = configs(false).into_iter().filter(|c| c.via_builder && c.start_dts == 9000).collect();
    let mut items: Vec<(FCfg, usize)> = cfgs.iter().flat_map(|c| (1..=max).map(move |n| (c.clone(), n))).collect();
    // one fragment of more than 2^16 samples (sample_count and table sizes beyond 16 bits)
    for c in cfgs.iter().take(if ctx.thorough { cfgs.len() } else { 1 }) {
        items.push((c.clone(), 66_000));
    }
    par_items(&items, ctx.seed, |idx, (cfg, n), t| {
        for pattern in 0..3usize {
            for cadence in [*n, (*n / 3).max(1)] {
                let mut h: Vec<FOp> = vec![];
                let mut dts = cfg.start_dts;
                for i in 0..*n {
                    let step = match pattern {
                        0 => 3000,
                        1 => [3003u64, 3003, 3004][i % 3],
                        _ => (i as u64 % 5) * 1500,
                    };
                    if i > 0 {
                        dts += step;
                    }
                    let off = [0i64, 6000, -3000, 3000][i % 4];
                    let pts = (dts as i64 + off).max(0) as u64;
                    let size = if i == n / 2 && *n % 16 == 0 { 66_000 } else { 1 + (i * 7) % 23 };
                    h.push(FOp::Write { pts, dts, data: oracle::model::hex(&body(i as u32, size)), sync: i % 8 == 0 });
                    if (i + 1) % cadence == 0 {
                        h.push(FOp::Flush);
                    }
                }
                h.push(FOp::Flush);
                h.push(FOp::Init);
                t.evaluations += 1;
                t.states += 1;
                t.transitions += h.len() as u64;
                match guarded(|| replay_history(cfg, &h)) {
                    Ok(Ok((_, _, issues))) => {
                        for (p, sig, detail) in issues {
                            if p == prop {
                                t.violation(&format!("{p}/scaling/{sig}"), (6_000_000 + idx as u64, (pattern * 2) as u64), || format!("{:?} n={n} pattern {pattern} cadence {cadence}: {detail}", cfg.codec), || json!({"engine": "E5", "cfg": cfg, "history": h, "brief": format!("{} operations", h.len())}));
                            }
                        }
                    }
                    Ok(Err(_)) => {}
                    Err(p) => t.violation(&format!("{prop}/scaling/panic"), (6_000_000 + idx as u64, 0), || format!("n={n} pattern {pattern}: {p}"), || json!({"engine": "E5", "cfg": cfg, "history": h})),
                }
            }
        }
    })
}

/// Values that look like box types: a decode time, a decode-time delta, a composition offset or a
/// payload whose big-endian bytes spell one of the four-character codes the segment itself
/// contains (at every byte alignment for the 64-bit decode time). Builders that locate a field by
/// searching for a code, or that patch bytes in place, are only wrong for such values.
fn lookalikes(ctx: &Ctx, prop: &'static str) -> Tally {
    let codes: [&[u8; 4]; 9] = [b"trun", b"tfdt", b"tfhd", b"traf", b"mfhd", b"moof", b"mdat", b"styp", b"sidx"];
    let cfgs: Vec<FCfg> = configs(false).into_iter().filter(|c| c.via_builder && c.start_dts == 9000).collect();
    let mut items: Vec<(FCfg, u32, usize, usize)> = vec![];
    for c in &cfgs {
        for code in codes {
            let v = u32::from_be_bytes(*code);
            for field in 0..4usize {
                for shift in 0..5usize {
                    if field != 0 && shift != 0 {
                        continue;
                    }
                    items.push((c.clone(), v, field, shift));
                }
            }
        }
    }
    let _ = ctx;
    par_items(&items, ctx.seed, |idx, (cfg, v, field, shift), t| {
        let v = *v as u64;
        let base: u64 = if *field == 0 { v << (8 * shift) } else { 9000 };
        let delta: u64 = if *field == 1 { v } else { 3000 };
        let cts: u64 = if *field == 2 { v & 0x7fff_ffff } else { 0 };
        let mut h: Vec<FOp> = vec![];
        for i in 0..4u64 {
            let dts = base + i * delta;
            let mut data = body(i as u32, 6);
            if *field == 3 {
                data.splice(1..1, (v as u32).to_be_bytes());
                data.extend_from_slice(&(v as u32).to_be_bytes());
            }
            h.push(FOp::Write { pts: dts + cts, dts, data: oracle::model::hex(&data), sync: i == 0 });
            if i == 1 {
                h.push(FOp::Flush);
            }
        }
        h.push(FOp::Flush);
        h.push(FOp::Init);
        t.evaluations += 1;
        t.states += 1;
        t.transitions += h.len() as u64;
        match guarded(|| replay_history(cfg, &h)) {
            Ok(Ok((_, _, issues))) => {
                for (p, sig, detail) in issues {
                    if p == prop {
                        t.violation(&format!("{p}/lookalike/{sig}"), (6_500_000 + idx as u64, 0), || format!("{:?} value {v:#x} in field {field} shift {shift}: {detail}", cfg.codec), || json!({"engine": "E5", "cfg": cfg, "history": h, "brief": brief(&h)}));
                    }
                }
            }
            Ok(Err(_)) => {}
            Err(p) => t.violation(&format!("{prop}/lookalike/panic"), (6_500_000 + idx as u64, 0), || format!("value {v:#x} field {field}: {p}"), || json!({"engine": "E5", "cfg": cfg, "history": h})),
        }
    })
}

/// The fragmented muxer stores sample payloads verbatim: payloads that look like Annex B input
/// (a valid length prefix can spell a start code), like ADTS, or like nothing must all come back
/// byte for byte, for every codec configuration.
fn payload_shapes(ctx: &Ctx, prop: &'static str) -> Tally {
    let mut shapes: Vec<Vec<u8>> = vec![
        vec![0, 0, 0, 1, 9, 0, 0, 0, 3, 0x65, 1, 2],
        vec![0, 0, 0, 1],
        vec![0, 0, 1, 0x65, 0x88],
        vec![0, 0, 0, 2, 0xaa, 0xbb],
        vec![0, 0, 0, 5, 0, 0, 1, 0x65, 0xaa],
        vec![0xff, 0xf1, 0x50, 0x80, 0x01, 0x7f, 0xfc, 0x21],
        vec![0x5a, 0, 0, 3, 1, 0, 0, 0],
        vec![0; 7],
    ];
    // a first unit of 256..511 bytes: its 4-byte length prefix reads 00 00 01 xx
    let mut long = vec![0u8, 0, 1, 0x2c];
    long.extend((0..300).map(|i| 0x30 + (i % 0x40) as u8));
    shapes.push(long);
    // a length-prefixed unit whose header byte takes every value (every H.264 / H.265 unit type,
    // with and without the forbidden bit): content must not influence the stored flags or bytes
    for b in 0..=255u8 {
        shapes.push(vec![0, 0, 0, 2, b, 0x01]);
    }
    let cfgs: Vec<FCfg> = configs(false).into_iter().filter(|c| c.start_dts == 0).collect();
    let items: Vec<(FCfg, usize)> = cfgs.iter().flat_map(|c| (0..shapes.len()).map(move |i| (c.clone(), i))).collect();
    par_items(&items, ctx.seed, |idx, (cfg, si), t| {
        let mut h: Vec<FOp> = vec![];
        for i in 0..3u64 {
            let data = if i == 1 { body(7, 5) } else { shapes[*si].clone() };
            h.push(FOp::Write { pts: i * 3000, dts: i * 3000, data: oracle::model::hex(&data), sync: i == 0 });
        }
        h.push(FOp::Flush);
        t.evaluations += 1;
        t.states += 1;
        t.transitions += h.len() as u64;
        match guarded(|| replay_history(cfg, &h)) {
            Ok(Ok((_, _, issues))) => {
                for (p, sig, detail) in issues {
                    if p == prop {
                        t.violation(&format!("{p}/payload-shape/{sig}"), (6_700_000 + idx as u64, 0), || format!("{:?} payload shape {si}: {detail}", cfg.codec), || json!({"engine": "E5", "cfg": cfg, "history": h, "brief": brief(&h)}));
                    }
                }
            }
            Ok(Err(_)) => {}
            Err(p) => t.violation(&format!("{prop}/payload-shape/panic"), (6_700_000 + idx as u64, 0), || format!("shape {si}: {p}"), || json!({"engine": "E5", "cfg": cfg, "history": h})),
        }
    })
}

/// Decode-time magnitudes: every ordered pair of consecutive decode times over a boundary set of
/// the whole u64 range (a flush in between, so no 32-bit duration is involved): the second write
/// is accepted iff it is not lower, whatever the distance.
fn magnitudes(ctx: &Ctx, prop: &'static str) -> Tally {
    const B: [u64; 11] = [0, 1, 1 << 31, 1 << 32, (1 << 63) - 1, 1 << 63, (1 << 63) + 10, u64::MAX - (1 << 31), u64::MAX - 1, u64::MAX, 9000];
    let cfgs: Vec<FCfg> = configs(false).into_iter().filter(|c| c.start_dts == 0).collect();
    let mut items = vec![];
    for c in &cfgs {
        for &a in &B {
            for &b in &B {
                items.push((c.clone(), a, b));
            }
        }
    }
    par_items(&items, ctx.seed, |idx, (cfg, a, b), t| {
        let h = vec![
            FOp::Write { pts: *a, dts: *a, data: oracle::model::hex(&body(1, 4)), sync: true },
            FOp::Flush,
            FOp::Write { pts: *b, dts: *b, data: oracle::model::hex(&body(2, 5)), sync: true },
            FOp::Flush,
        ];
        t.evaluations += 1;
        t.states += 1;
        t.transitions += h.len() as u64;
        match guarded(|| replay_history(cfg, &h)) {
            Ok(Ok((_, _, issues))) => {
                for (p, sig, detail) in issues {
                    if p == prop {
                        t.violation(&format!("{p}/magnitude/{sig}"), (6_800_000 + idx as u64, 0), || format!("{:?} decode times {a} then {b}: {detail}", cfg.codec), || json!({"engine": "E5", "cfg": cfg, "history": h, "brief": brief(&h)}));
                    }
                }
            }
            Ok(Err(_)) => {}
            Err(p) => t.violation(&format!("{prop}/magnitude/panic"), (6_800_000 + idx as u64, 0), || format!("decode times {a} then {b}: {p}"), || json!({"engine": "E5", "cfg": cfg, "history": h})),
        }
    })
}

/// Decode-time spans inside ONE fragment: every sequence of 2..=4 decode steps over a boundary set
/// of the 32-bit duration field (each step fits it, their sums need not), from three bases. Sample
/// durations are differences of neighbours, whatever the distance to the fragment's first sample.
fn spans(ctx: &Ctx, prop: &'static str) -> Tally {
    const S: [u64; 6] = [1, 3000, (1 << 31) - 1, 1 << 31, 3_000_000_000, (1 << 32) - 1];
    let cfgs: Vec<FCfg> = configs(false).into_iter().filter(|c| c.start_dts == 0).collect();
    let mut seqs: Vec<Vec<u64>> = vec![];
    let mut frontier: Vec<Vec<u64>> = vec![vec![]];
    for _ in 0..4 {
        frontier = frontier.iter().flat_map(|q| S.iter().map(move |&x| { let mut r = q.clone(); r.push(x); r })).collect();
        seqs.extend(frontier.iter().filter(|q| q.len() >= 2).cloned());
    }
    let mut items = vec![];
    for c in &cfgs {
        for base in [0u64, 90_000, 1 << 40] {
            items.push((c.clone(), base));
        }
    }
    let seqs = &seqs;
    par_items(&items, ctx.seed, |idx, (cfg, base), t| {
        for (k, q) in seqs.iter().enumerate() {
            let mut h = vec![];
            let mut d = *base;
            for i in 0..=q.len() {
                if i > 0 {
                    d += q[i - 1];
                }
                // the second sample is presented one tick late: offsets must not follow the span either
                let p = if i == 1 { d + 1 } else { d };
                h.push(FOp::Write { pts: p, dts: d, data: oracle::model::hex(&body(i as u32 + 1, 3 + i)), sync: i == 0 });
            }
            h.push(FOp::Flush);
            t.evaluations += 1;
            t.states += 1;
            t.transitions += h.len() as u64;
            match guarded(|| replay_history(cfg, &h)) {
                Ok(Ok((_, _, issues))) => {
                    for (p, sig, detail) in issues {
                        if p == prop {
                            t.violation(&format!("{p}/span/{sig}"), (6_900_000 + idx as u64, k as u64), || format!("{:?} base {base} steps {q:?}: {detail}", cfg.codec), || json!({"engine": "E5", "cfg": cfg, "history": h, "brief": brief(&h)}));
                        }
                    }
                }
                Ok(Err(_)) => {}
                Err(p) => t.violation(&format!("{prop}/span/panic"), (6_900_000 + idx as u64, k as u64), || format!("base {base} steps {q:?}: {p}"), || json!({"engine": "E5", "cfg": cfg, "history": h})),
            }
        }
    })
}

pub fn check(ctx: &Ctx, prop: &'static str) -> i32 {
    if prop == "C11" {
        REFERENCE_INITS.store(true, std::sync::atomic::Ordering::Relaxed);
    }
    let (mut tally, mut meta) = collect(ctx, prop);
    if prop == "C11" {
        let n = REF_CACHE.lock().map(|g| g.as_ref().map(|m| m.values().filter(|v| v.is_some()).count()).unwrap_or(0)).unwrap_or(0);
        tally.count("reference_init_segments_from_child_processes", n as u64);
    }
    let t6 = spans(ctx, prop);
    tally.count("span_histories", t6.evaluations);
    tally.merge(t6);
    if prop == "C10" {
        let t5 = magnitudes(ctx, prop);
        tally.count("magnitude_histories", t5.evaluations);
        tally.merge(t5);
    }
    let t4 = payload_shapes(ctx, prop);
    tally.count("payload_shape_histories", t4.evaluations);
    tally.merge(t4);
    let t3 = lookalikes(ctx, prop);
    tally.count("lookalike_histories", t3.evaluations);
    tally.merge(t3);
    let t2 = scaling(ctx, prop);
    tally.count("scaling_histories", t2.evaluations);
    tally.merge(t2);
    meta.rule = format!("{} Scaling family: fragments of every sample count 1..={} x 3 decode-step patterns x 2 flush cadences x 4 codecs (one 66 KB sample in some) plus fragments of 66 000 samples, replayed with the same model. Look-alike family: decode time (5 byte alignments), decode delta, composition offset or payload spelling each of 9 box codes x 4 codecs. Decode-time spans: every sequence of 2..4 decode steps over {{1, 3000, 2^31-1, 2^31, 3e9, 2^32-1}} inside one fragment x 3 bases x every configuration. Decode-time magnitudes (C10): every ordered pair over 11 boundary values of the u64 range with a flush in between. Payload shapes: 9 payloads that look like Annex B / ADTS / padding (a length prefix spelling a start code among them) and a length-prefixed unit with every header byte value x every configuration.", meta.rule, if ctx.thorough { 200 } else { 80 });
    finish(ctx, &tally, meta)
}

pub fn replay(prop: &str, case: &Value) -> i32 {
    let cfg: FCfg = serde_json::from_value(case["cfg"].clone()).expect("cfg");
    let h: Vec<FOp> = serde_json::from_value(case["history"].clone()).expect("history");
    println!("configuration: {cfg:?}\nhistory: {}", brief(&h));
    match guarded(|| replay_history(&cfg, &h)) {
        Ok(Ok((m, r, issues))) => {
            println!("final state: {} queued, next sequence {}, implementation: {:.200}", r.fifo.len(), r.next_seq, format!("{m:?}"));
            let mine: Vec<_> = issues.iter().filter(|i| i.0 == prop).collect();
            for i in &issues {
                println!("  [{}] {}: {}", i.0, i.1, i.2);
            }
            if mine.is_empty() {
                println!("replay: property {prop} holds for this case");
                0
            } else {
                println!("replay: VIOLATION of {prop}");
                1
            }
        }
        Ok(Err(e)) => {
            println!("builder error: {e}");
            2
        }
        Err(p) => {
            println!("replay: VIOLATION (panic): {p}");
            1
        }
    }
}
