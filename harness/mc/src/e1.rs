//! E1 - history explorer for the progressive muxer, file-level properties
//! (C01, C02 progressive part, C03, C08, C15). Every history of the bounded space is executed on
//! the real muxer, the output is parsed by the independent reader and compared with what was
//! submitted.

use crate::run::{run, run_finished, Exec};
use oracle::fileck::{self, expect_from, Expect, Issues};
use oracle::hist::{self, HistSpec};
use oracle::model::{brief_ops, Cfg, Op, Res};
use oracle::reader::{parse_movie, Movie};
use oracle::report::{finish, par_items, Ctx, Fnv, Meta, Tally};
use serde_json::{json, Value};

pub fn case_json(cfg: &Cfg, ops: &[Op]) -> Value {
    json!({"engine": "E1", "cfg": cfg, "ops": ops, "brief": brief_ops(ops)})
}

pub fn outcome_hash(ex: &Exec) -> u64 {
    let mut h = Fnv::new();
    for r in &ex.results {
        h.str(&r.brief());
    }
    h.bytes(&ex.bytes);
    h.0
}

/// Which oracle a file-level check applies.
#[derive(Clone, Copy, PartialEq, Eq, Debug)]
pub enum FileProp {
    C01,
    C02,
    C03,
    C15,
}

pub fn apply_oracle(p: FileProp, d: &[u8], m: &Movie, cfg: &Cfg, e: &Expect) -> Issues {
    match p {
        FileProp::C01 => fileck::c01(d, m, cfg, e),
        FileProp::C02 => fileck::c02_progressive(m, cfg),
        FileProp::C03 => fileck::c03(m, cfg, e),
        FileProp::C15 => fileck::c15(d, m, cfg, e),
    }
}

/// A box path taken from a damaged file contains "types" read from arbitrary bytes; they would make
/// the signature depend on the payload. Components that are not plain box names become `*`.
pub fn stable_sig(sig: &str) -> String {
    sig.split('/')
        .map(|c| {
            let plain = !c.is_empty() && c.chars().all(|ch| ch.is_ascii_alphanumeric() || "<>=-_[]. ".contains(ch)) && !c.contains("  ");
            if plain || c.is_empty() { c.to_string() } else { "*".to_string() }
        })
        .collect::<Vec<_>>()
        .join("/")
}

/// Execute one accepted-only history, finish it, and judge the file. Returns false when the
/// history could not be judged (finish failed / a write was unexpectedly rejected).
pub fn judge_history(p: FileProp, cfg: &Cfg, ops: &[Op], order: (u64, u64), t: &mut Tally) {
    let ex = run_finished(cfg, ops);
    t.evaluations += 1;
    t.states += 1;
    t.transitions += ex.results.len() as u64;
    if let Some((i, msg)) = ex.panicked() {
        // a panic is C12's finding; here the history simply has no file to judge
        t.count("histories_ending_in_panic", 1);
        let _ = (i, msg);
        return;
    }
    let fin_ok = ex.results.last().map(|r| r.is_ok()).unwrap_or(false);
    if !fin_ok {
        t.count("finish_rejected", 1);
        return;
    }
    let rejected = ex.results[..ops.len()].iter().filter(|r| !r.is_ok()).count();
    if rejected > 0 {
        t.count("writes_rejected_in_accepted_only_set", rejected as u64);
    }
    let e = expect_from(cfg, ops, &ex.results);
    let m = parse_movie(&ex.bytes, "prog");
    let issues = apply_oracle(p, &ex.bytes, &m, cfg, &e);
    t.traces += 1;
    t.outcome(outcome_hash(&ex));
    if !e.video.is_empty() {
        t.count("files_with_samples", 1);
    }
    if e.video.iter().any(|s| s.pts != s.dts) {
        t.count("files_with_reordering", 1);
    }
    if !e.audio.is_empty() {
        t.count("files_with_audio_samples", 1);
    }
    for (sig, detail) in issues {
        let layout = if cfg.audio.is_some() { "av" } else { "v" };
        let full = format!("{p:?}/{layout}/{}", stable_sig(&sig));
        t.violation(&full, order, || format!("{} | {} | {} [{sig}]", cfg.short(), brief_ops(ops), detail), || case_json(cfg, ops));
    }
    t.sample(3, || json!({"cfg": cfg.short(), "history": brief_ops(ops), "results": ex.results.iter().map(|r| r.brief()).collect::<Vec<_>>(), "file_bytes": ex.bytes.len()}));
}

struct Item {
    cfg: Cfg,
    specs: Vec<HistSpec>,
}

fn items_for(thorough: bool, nv: usize, na: usize, degenerate: bool) -> Vec<Item> {
    let mut items = vec![];
    for cfg in hist::configs(thorough) {
        let specs = hist::c01_specs(&cfg, nv, na, thorough);
        for chunk in specs.chunks(1500) {
            items.push(Item { cfg: cfg.clone(), specs: chunk.to_vec() });
        }
        let _ = degenerate;
    }
    items
}

pub fn bounds(ctx: &Ctx) -> (usize, usize) {
    if ctx.thorough { (4, 3) } else { (4, 2) }
}

/// C01 / C03(basic) / C15 over the shared accepted-only history set.
pub fn collect_file_prop(ctx: &Ctx, p: FileProp) -> (Tally, Meta) {
    let (nv, na) = bounds(ctx);
    let items = items_for(ctx.thorough, nv, na, true);
    let tally = par_items(&items, ctx.seed, |idx, it, t| {
        for (k, s) in it.specs.iter().enumerate() {
            let ops = hist::build_ops(&it.cfg, s);
            judge_history(p, &it.cfg, &ops, (idx as u64, k as u64), t);
        }
    });
    let nconf = hist::configs(ctx.thorough).len();
    let meta = Meta {
            level: "model_checking",
            rule: format!(
                "every accepted-only history: all submission orders of <= {nv} video and <= {na} audio writes (first write video) x 3 DTS patterns x {{write_video, with_dts pts=dts, every non-identity permutation of PTS among the frames}} x all key-flag vectors x frame-size patterns x {nconf} configurations; each executed on the real muxer, finished, parsed by the independent reader; an outcome is distinct by (result vector, output bytes) and non-trivial when the file parses"
            ),
            bound: format!("nV<={nv}, nA<={na}, {nconf} configurations, no state merging"),
            exhaustive: true,
            assumptions: vec![
                "the independent reader (oracle/src/reader.rs) is trusted".into(),
                "payloads are tagged patterns of 1..300 bytes; behaviours that depend on payload size beyond 300 bytes are not covered".into(),
            ],
            extra: json!({"configurations": nconf}),
    };
    (tally, meta)
}

pub fn check_file_prop(ctx: &Ctx, p: FileProp) -> i32 {
    let (mut tally, mut meta) = collect_file_prop(ctx, p);
    if p == FileProp::C01 {
        tally.merge(scaling_part(ctx, p));
        tally.merge(crate::faults::retry_part(ctx, "C01"));
        // thorough tier: files whose media data reaches 2^32 bytes (whatever finish accepts must
        // still resolve sample by sample)
        crate::widths::huge_part(ctx, &mut tally, "C01");
        meta.rule = format!("{} On a scripted sink, every representative history x failure at every write call x every error kind x three finish attempts: whenever a finish reports success the sink's bytes must resolve to the accepted frames. Thorough tier: the huge-file cases of C16 (media data of 2^32 - 8 - e bytes, with and without trailing audio) under this oracle. Plus the scaling family: every video count 1..={} x three audio cadences x three submission shapes (files of up to ~300 samples), same oracle.", meta.rule, if ctx.thorough { 120 } else { 48 });
    }
    finish(ctx, &tally, meta)
}

/// C08: every history of the set executed with fast start on and off.
pub fn check_c08(ctx: &Ctx) -> i32 {
    let (nv, na) = bounds(ctx);
    // configurations with fast_start = true only; the twin is derived
    let mut items = vec![];
    let title_lens: &[usize] = if ctx.thorough { &[0, 1, 57, 4000] } else { &[1, 57] };
    let mut cfgs: Vec<Cfg> = hist::configs(ctx.thorough).into_iter().filter(|c| c.fast_start).collect();
    // metadata of several lengths moves mdat in the fast-start layout
    let base: Vec<Cfg> = cfgs.iter().take(6).cloned().collect();
    for (i, c) in base.iter().enumerate() {
        for &l in title_lens {
            let mut c2 = c.clone();
            c2.meta = Some(oracle::model::Meta { title: Some("x".repeat(l)), time: if i % 2 == 0 { Some(1_600_000_000) } else { None }, lang: None });
            cfgs.push(c2);
        }
    }
    for cfg in cfgs {
        let specs = hist::c01_specs(&cfg, nv, na, ctx.thorough);
        for chunk in specs.chunks(800) {
            items.push(Item { cfg: cfg.clone(), specs: chunk.to_vec() });
        }
    }
    let nconf = items.iter().map(|i| i.cfg.short() + &format!("{:?}", i.cfg.meta)).collect::<std::collections::HashSet<_>>().len();
    let mut tally = par_items(&items, ctx.seed, |idx, it, t| {
        for (k, s) in it.specs.iter().enumerate() {
            let ops = hist::build_ops(&it.cfg, s);
            c08_one(&it.cfg, &ops, (idx as u64, k as u64), t);
        }
    });
    // scaling family (many samples => long tables, moov well above 64 KiB at the top end; large samples)
    let hs = scaling_histories(if ctx.thorough { 120 } else { 48 });
    let chunks: Vec<&[(Cfg, Vec<Op>, String)]> = hs.chunks(8).collect();
    let t2 = par_items(&chunks, ctx.seed, |idx, ch, t| {
        for (k, (cfg, ops, _)) in ch.iter().enumerate() {
            let mut c = cfg.clone();
            if k % 2 == 0 {
                c.meta = Some(oracle::model::Meta { title: Some("scaling".into()), time: Some(1), lang: None });
            }
            c08_one(&c, ops, (8_000_000 + idx as u64, k as u64), t);
        }
    });
    tally.merge(t2);
    // flag plumbing: the layout must follow the requested setting whatever the order and alias of
    // the builder calls (each ordering compared with the canonical one, which is judged above)
    crate::determinism::builder_orders_part(&mut tally, "C08");
    finish(
        ctx,
        &tally,
        Meta {
            level: "model_checking",
            rule: format!("every history of the C01 set (nV<={nv}, nA<={na}) executed twice on the real muxer, fast start on and off, over {nconf} configuration/metadata-length combinations; plus the scaling family (every video count up to 48 / 120 with three audio cadences, and samples of 70 KB up to 2 MiB, 16 MiB in the thorough tier, around every power of two); every permutation and alias choice of the builder calls (video, audio, fast start, metadata) x 16 configurations against the canonical order; differential oracle: top-level order per layout, each file dereferences to the submitted bytes (C01 oracle), reader-reduced movies (moov with chunk offsets zeroed) byte-equal; distinct by the pair of output files"),
            bound: format!("nV<={nv}, nA<={na}; metadata title lengths {title_lens:?}"),
            exhaustive: true,
            assumptions: vec!["the independent reader is trusted".into()],
            extra: json!({}),
        },
    )
}

pub fn c08_one(cfg: &Cfg, ops: &[Op], order: (u64, u64), t: &mut Tally) {
    let mut on = cfg.clone();
    on.fast_start = true;
    let mut off = cfg.clone();
    off.fast_start = false;
    let ex1 = run_finished(&on, ops);
    let ex2 = run_finished(&off, ops);
    t.evaluations += 2;
    t.states += 2;
    t.transitions += (ex1.results.len() + ex2.results.len()) as u64;
    if ex1.panicked().is_some() || ex2.panicked().is_some() {
        t.count("histories_ending_in_panic", 1);
        return;
    }
    let mut issues: Issues = vec![];
    // bytes_written legitimately differs between the layouts for a zero-sample video-only file
    // (the fast-start layout always emits an (empty) mdat, the standard layout omits it), so the
    // statistics are compared without it.
    let strip = |r: &Res| match r {
        Res::OkStats(s) => format!("Ok(v{} a{} {:?})", s.video_frames, s.audio_frames, s.duration_secs.0),
        o => o.brief(),
    };
    if ex1.results.iter().map(strip).collect::<Vec<_>>() != ex2.results.iter().map(strip).collect::<Vec<_>>() {
        issues.push(("results-differ".into(), format!("{:?} vs {:?}", ex1.results.last().map(|r| r.brief()), ex2.results.last().map(|r| r.brief()))));
    }
    if !ex1.results.last().map(|r| r.is_ok()).unwrap_or(false) || !ex2.results.last().map(|r| r.is_ok()).unwrap_or(false) {
        t.count("finish_rejected", 1);
        if !issues.is_empty() {
            report(t, cfg, ops, order, "C08", issues);
        }
        return;
    }
    let m1 = parse_movie(&ex1.bytes, "prog");
    let m2 = parse_movie(&ex2.bytes, "prog");
    let names = |m: &Movie| m.top.iter().map(|b| oracle::reader::fcc(&b.typ)).collect::<Vec<_>>();
    let (n1, n2) = (names(&m1), names(&m2));
    if n1 != ["ftyp", "moov", "mdat"] {
        issues.push(("fast-start-order".into(), format!("fast start on gives top-level {n1:?}")));
    }
    let has_mdat_off = n2.contains(&"mdat".to_string());
    if !(n2 == ["ftyp", "mdat", "moov"] || (!has_mdat_off && n2 == ["ftyp", "moov"])) {
        issues.push(("standard-order".into(), format!("fast start off gives top-level {n2:?}")));
    }
    let e = expect_from(&on, ops, &ex1.results);
    for (tag, ex, m, c) in [("on", &ex1, &m1, &on), ("off", &ex2, &m2, &off)] {
        for (s, d) in fileck::c01(&ex.bytes, m, c, &e) {
            issues.push((format!("offsets-{tag}/{s}"), d));
        }
    }
    for (s, d) in fileck::same_movie(&ex1.bytes, &m1, &ex2.bytes, &m2, false) {
        issues.push((format!("layouts-disagree/{s}"), d));
    }
    t.traces += 2;
    let mut h = Fnv::new();
    h.bytes(&ex1.bytes).bytes(&ex2.bytes);
    t.outcome(h.0);
    t.sample(3, || json!({"cfg": cfg.short(), "history": brief_ops(ops), "top_level_on": n1, "top_level_off": n2, "bytes_on": ex1.bytes.len(), "bytes_off": ex2.bytes.len()}));
    report(t, cfg, ops, order, "C08", issues);
}

pub fn report(t: &mut Tally, cfg: &Cfg, ops: &[Op], order: (u64, u64), prop: &str, issues: Issues) {
    for (sig, detail) in issues {
        let full = format!("{prop}/{sig}");
        t.violation(&full, order, || format!("{} | {} | {}", cfg.short(), brief_ops(ops), detail), || case_json(cfg, ops));
    }
}

/// Replay of an E1 case for one of the file-level properties: prints everything observed.
pub fn replay(prop: &str, case: &Value) -> i32 {
    let cfg: Cfg = serde_json::from_value(case["cfg"].clone()).expect("cfg");
    let ops: Vec<Op> = serde_json::from_value(case["ops"].clone()).expect("ops");
    println!("configuration: {cfg:?}");
    println!("history: {}", brief_ops(&ops));
    let mut t = Tally::default();
    match prop {
        "C01" => judge_history(FileProp::C01, &cfg, &ops, (0, 0), &mut t),
        "C02" => judge_history(FileProp::C02, &cfg, &ops, (0, 0), &mut t),
        "C03" => judge_history(FileProp::C03, &cfg, &ops, (0, 0), &mut t),
        "C15" => judge_history(FileProp::C15, &cfg, &ops, (0, 0), &mut t),
        "C08" => c08_one(&cfg, &ops, (0, 0), &mut t),
        _ => {
            println!("no E1 replay for {prop}");
            return 2;
        }
    }
    let ex = run(&cfg, &ops);
    for (o, r) in ops.iter().zip(ex.results.iter()) {
        println!("  {} -> {}", o.brief(), match r { Res::Err(_, d) => format!("{} {}", r.brief(), d), _ => r.brief() });
    }
    if t.viol.is_empty() {
        println!("replay: property {prop} holds for this case");
        0
    } else {
        for (sig, f) in &t.viol {
            println!("replay: VIOLATION {sig}: {}", f.detail);
        }
        1
    }
}

// ---------------------------------------------------------------------------------------------
// C15: the shared history set plus a timestamp lattice with cross-track equalities
// ---------------------------------------------------------------------------------------------

fn increasing(points: usize, len: usize, strict: bool, from: usize) -> Vec<Vec<usize>> {
    fn rec(points: usize, len: usize, strict: bool, lo: usize, cur: &mut Vec<usize>, out: &mut Vec<Vec<usize>>) {
        if cur.len() == len {
            out.push(cur.clone());
            return;
        }
        for p in lo..points {
            cur.push(p);
            rec(points, len, strict, if strict { p + 1 } else { p }, cur, out);
            cur.pop();
        }
    }
    let mut out = vec![];
    rec(points, len, strict, from, &mut vec![], &mut out);
    out
}

pub fn check_c15(ctx: &Ctx) -> i32 {
    let (mut tally, mut meta) = collect_file_prop(ctx, FileProp::C15);
    let (nvm, nam) = if ctx.thorough { (4, 4) } else { (3, 3) };
    const POINTS: usize = 6;
    // lattice spacings: 1800 ticks (ordinary), 30 ticks (several points inside one millisecond:
    // orderings that are only right at a coarser clock), and 1 tick in the thorough tier
    let steps: Vec<f64> = if ctx.thorough { vec![0.02, 30.0 / 90000.0, 1.0 / 90000.0] } else { vec![0.02, 30.0 / 90000.0] };
    let mut items: Vec<(Cfg, Vec<usize>)> = vec![];
    for codec in if ctx.thorough { vec![oracle::frames::VCodec::H264, oracle::frames::VCodec::Vp9] } else { vec![oracle::frames::VCodec::H264] } {
        for ac in [oracle::frames::ACodec::AacLc, oracle::frames::ACodec::Opus] {
            for fs in [true, false] {
                for nv in 1..=nvm {
                    for v in increasing(POINTS, nv, true, 0) {
                        items.push((Cfg::basic(codec, Some(ac), fs), v));
                    }
                }
            }
        }
    }
    let t2 = par_items(&items, ctx.seed, |idx, (cfg, vts), t| {
        let mut k = 0u64;
        let nv = vts.len();
        for &step in &steps {
        for na in 1..=nam {
            for ats in increasing(POINTS, na, false, vts[0]) {
                for order in hist::orders(nv, na) {
                    let mut ops = vec![];
                    let (mut vi, mut ai) = (0, 0);
                    for &is_v in &order {
                        if is_v {
                            let (d, _) = oracle::frames::video_frame(cfg.codec, vi == 0, vi == 0, vi as u32 + 1, 4 + vi);
                            ops.push(Op::WV { pts: oracle::model::T(vts[vi] as f64 * step), data: oracle::model::Bytes::new(d), key: vi == 0 });
                            vi += 1;
                        } else {
                            let (d, _) = oracle::frames::audio_frame(cfg.audio.as_ref().unwrap().codec, ai as u32, 5 + ai);
                            ops.push(Op::WA { pts: oracle::model::T(ats[ai] as f64 * step), data: oracle::model::Bytes::new(d) });
                            ai += 1;
                        }
                    }
                    k += 1;
                    judge_history(FileProp::C15, cfg, &ops, (5_000_000 + idx as u64, k), t);
                    // the same history with an audio frame that is rejected for its payload (at a
                    // later time than anything accepted) right after the first audio frame: the
                    // order of what was accepted must not depend on it
                    if na >= 2 && step > 0.001 {
                        if let Some(p) = ops.iter().position(|o| matches!(o, Op::WA { .. })) {
                            let mut with_reject = ops.clone();
                            with_reject.insert(p + 1, Op::WA { pts: oracle::model::T(POINTS as f64 * step), data: oracle::model::Bytes::new(vec![0x03]) });
                            k += 1;
                            judge_history(FileProp::C15, cfg, &with_reject, (5_000_000 + idx as u64, k), t);
                        }
                    }
                }
            }
        }
        }
    });
    tally.count("lattice_histories", t2.evaluations);
    tally.merge(t2);
    tally.merge(scaling_part(ctx, FileProp::C15));
    meta.rule = format!("(1) {} (2) timestamp lattice: video timestamps = every strictly increasing choice of <= {nvm} points of {{0,1,..,5}} x spacing {{0.02 s, 30 ticks (1 tick in the thorough tier)}}, audio timestamps = every non-decreasing choice of <= {nam} points not before the first video point (so cross-track equalities at every index combination occur), every admissible submission order (bursts, all-video-first, alternation), each also with a rejected audio frame after the first audio frame, {{AAC, Opus}} x both layouts: storage order by file offset must equal the merge by (tick, video first, sample number) (3) scaling family: every video count 1..={} x three audio cadences with cross-track ties x three submission shapes (up to ~300 samples per file)", meta.rule, if ctx.thorough { 120 } else { 48 });
    finish(ctx, &tally, meta)
}

// ---------------------------------------------------------------------------------------------
// Scaling family: the same simple shapes at growing sizes (implementation thresholds such as a
// sort switching algorithms at 20/32 elements or buffers crossing a chunk size are invisible
// to small-scope enumeration). Every size 1..=max is run, not a sample of sizes.
// ---------------------------------------------------------------------------------------------

pub fn scaling_histories(max_video: usize) -> Vec<(Cfg, Vec<Op>, String)> {
    use oracle::frames::{audio_frame, video_frame, ACodec, VCodec};
    use oracle::model::{Bytes, T};
    let mut out = vec![];
    let unit = 0.02f64;
    for nv in 1..=max_video {
        // audio cadence relative to video: same ticks, twice as dense, half as dense
        for (cad, name) in [((1usize, 1usize), "1:1"), ((1, 2), "2 audio per video"), ((2, 1), "1 audio per 2 video"), ((1, 1), "audio pairs on one tick")] {
            for shape in 0..3usize {
                let (codec, ac, fs) = match (nv + shape) % 4 {
                    0 => (VCodec::H264, ACodec::AacLc, true),
                    1 => (VCodec::H265, ACodec::Opus, false),
                    2 => (VCodec::Av1, ACodec::AacLc, false),
                    _ => (VCodec::Vp9, ACodec::Opus, true),
                };
                let cfg = Cfg::basic(codec, Some(ac), fs);
                // video at 2*i*cad.0 units, audio at j*cad... on a shared lattice so ties occur
                let vts: Vec<f64> = (0..nv).map(|i| (i * 2 * cad.0) as f64 * unit).collect();
                let na = nv * 2 * cad.0 / (2 * cad.0 / cad.1.max(1)).max(1);
                let astep = (2 * cad.0) as f64 / cad.1 as f64;
                let mut ats: Vec<f64> = (0..na.min(3 * nv)).map(|j| (j as f64 * astep).round() * unit).filter(|&a| a <= *vts.last().unwrap() + unit).collect();
                if name == "audio pairs on one tick" {
                    // audio timestamps need only be non-decreasing: every tick carries two
                    // frames (of different sizes, see a_op)
                    ats = ats.iter().flat_map(|&a| [a, a]).collect();
                }
                let v_op = |i: usize| {
                    let (d, _) = video_frame(codec, i == 0 || i % 7 == 0, i == 0, i as u32 + 1, 4 + i % 5);
                    Op::WV { pts: T(vts[i]), data: Bytes::new(d), key: i == 0 || i % 7 == 0 }
                };
                let a_op = |j: usize| Op::WA { pts: T(ats[j]), data: Bytes::new(audio_frame(ac, j as u32, 5 + j % 3).0) };
                let mut ops = vec![];
                match shape {
                    0 => {
                        // merge in timestamp order (video first on ties)
                        let (mut i, mut j) = (0, 0);
                        while i < nv || j < ats.len() {
                            if j >= ats.len() || (i < nv && vts[i] <= ats[j]) {
                                ops.push(v_op(i));
                                i += 1;
                            } else {
                                ops.push(a_op(j));
                                j += 1;
                            }
                        }
                    }
                    1 => {
                        for i in 0..nv {
                            ops.push(v_op(i));
                        }
                        for j in 0..ats.len() {
                            ops.push(a_op(j));
                        }
                    }
                    _ => {
                        // first video frame, then all audio, then the remaining video
                        ops.push(v_op(0));
                        for j in 0..ats.len() {
                            ops.push(a_op(j));
                        }
                        for i in 1..nv {
                            ops.push(v_op(i));
                        }
                    }
                }
                out.push((cfg, ops, format!("nv={nv} cadence {name} shape {shape}")));
            }
        }
    }
    // the same small histories with absolute timestamps straddling 2^32 ticks (13 h 15 min): the
    // rules bound a track's span, not its absolute times
    let shift = (4294967296.0 - 9000.0) / 90000.0;
    let shifted: Vec<(Cfg, Vec<Op>, String)> = out
        .iter()
        .filter(|(_, ops, _)| ops.len() >= 6 && ops.len() <= 40)
        .map(|(c, ops, n)| {
            let ops2 = ops
                .iter()
                .map(|o| match o {
                    Op::WV { pts, data, key } => Op::WV { pts: T(pts.0 + shift), data: data.clone(), key: *key },
                    Op::WA { pts, data } => Op::WA { pts: T(pts.0 + shift), data: data.clone() },
                    other => other.clone(),
                })
                .collect();
            (c.clone(), ops2, format!("{n}, straddling 2^32 ticks"))
        })
        .collect();
    out.extend(shifted);
    // samples larger than 64 KiB: a ladder of sizes around every power of two up to 2 MiB (16 MiB
    // in the thorough tier), so that staging-buffer, chunk-size and 16/24-bit thresholds in the
    // size handling are crossed with smaller samples scheduled before and after the large one
    let mut ladder: Vec<usize> = vec![70_000, (1 << 17) + 1, (1 << 18) - 1, 1 << 18, (1 << 18) + 5, (1 << 19) + 3, (1 << 20) + 7, (1 << 21) + 1];
    if max_video > 48 {
        ladder.extend([(1 << 22) + 2, (1 << 23) + 5, (1 << 24) + 9]);
    }
    for (li, &big) in ladder.iter().enumerate() {
        for (codec, ac, fs) in [(VCodec::H264, Some(ACodec::AacLc), true), (VCodec::Vp9, None, false), (VCodec::H265, Some(ACodec::Opus), false), (VCodec::Av1, None, true), (VCodec::H264, Some(ACodec::Opus), true), (VCodec::H265, Some(ACodec::AacLc), false)] {
            for big_at in 0..3usize {
                // the full product for the first rung; beyond it the position and the configuration cycle
                if li > 0 && (big_at + li) % 3 != 0 {
                    continue;
                }
                let cfg = Cfg::basic(codec, ac, fs);
                let mut ops = vec![];
                for i in 0..3usize {
                    let len = if i == big_at { big + i } else { 5 + i };
                    let (d, _) = video_frame(codec, i == 0, i == 0, i as u32 + 1, len);
                    ops.push(Op::WV { pts: T(i as f64 * unit), data: Bytes::new(d), key: i == 0 });
                    if let Some(a) = ac {
                        ops.push(Op::WA { pts: T(i as f64 * unit), data: Bytes::new(audio_frame(a, i as u32, if i == big_at && a == ACodec::Opus { big - 4_000 } else { 6 }).0) });
                    }
                }
                out.push((cfg, ops, format!("sample of {big} bytes at {big_at}")));
            }
        }
    }
    // AAC frames whose ADTS frame length crosses every power of two up to the 13-bit maximum
    for len in [120usize, 121, 248, 249, 504, 505, 1016, 1017, 2040, 2041, 4088, 4089, 4090, 6000, 8180] {
        for fs in [true, false] {
            let cfg = Cfg::basic(VCodec::H264, Some(ACodec::AacLc), fs);
            let mut ops = vec![];
            for i in 0..2usize {
                let (d, _) = video_frame(VCodec::H264, i == 0, i == 0, i as u32 + 1, 5);
                ops.push(Op::WV { pts: T(i as f64 * unit), data: Bytes::new(d), key: i == 0 });
                ops.push(Op::WA { pts: T(i as f64 * unit), data: Bytes::new(audio_frame(ACodec::AacLc, i as u32 + (len % 3) as u32, if i == 1 { len } else { 9 }).0) });
            }
            out.push((cfg, ops, format!("AAC payload of {len} bytes")));
        }
    }
    // look-alike values: a start time, a decode delta (both in ticks) or payloads whose bytes spell
    // a box code of the file (builders that search for a code or patch in place)
    for code in [b"stco", b"stsz", b"stsc", b"stts", b"ctts", b"stss", b"mdat", b"moov", b"trak", b"mdia", b"stbl", b"udta", b"free"] {
        let v = u32::from_be_bytes(*code) as u64;
        for field in 0..3usize {
            for fs in [true, false] {
                let cfg = Cfg::basic(VCodec::H264, Some(ACodec::Opus), fs);
                let start = if field == 0 { v } else { 0 };
                let delta = if field == 1 { v } else { 1800 };
                let mut ops = vec![];
                for i in 0..2u64 {
                    let t = (start + i * delta) as f64 / 90000.0;
                    let (mut d, _) = video_frame(VCodec::H264, i == 0, i == 0, i as u32 + 1, 5);
                    let mut a = audio_frame(ACodec::Opus, i as u32, 6).0;
                    if field == 2 {
                        d.extend_from_slice(code);
                        d.push(0x80);
                        a.extend_from_slice(code);
                    }
                    ops.push(Op::WV { pts: T(t), data: Bytes::new(d), key: i == 0 });
                    ops.push(Op::WA { pts: T(t), data: Bytes::new(a) });
                }
                out.push((cfg, ops, format!("look-alike {} in field {field}", String::from_utf8_lossy(code))));
            }
        }
        // the same code inside a parameter set of the first keyframe (it is copied into the
        // sample description, i.e. into the moov), followed by 0, 4, 8 or 12 further bytes
        for tail in [0usize, 4, 8, 12] {
            for (fs, audio) in [(true, None), (true, Some(ACodec::Opus)), (false, None)] {
                for in_sps in [false, true] {
                    let cfg = Cfg::basic(VCodec::H264, audio, fs);
                    let (mut sps, mut pps) = (oracle::frames::h264_sps(0), oracle::frames::h264_pps(0));
                    let target = if in_sps { &mut sps } else { &mut pps };
                    target.extend_from_slice(code);
                    target.extend((0..tail).map(|i| 0x91 + i as u8));
                    let key = oracle::frames::annexb_mode(&[sps, pps, vec![0x65, 0x88, 0x84, 0x21]], tail as u32);
                    let mut ops = vec![Op::WV { pts: T(0.0), data: Bytes::new(key), key: true }];
                    ops.push(Op::WV { pts: T(unit), data: Bytes::new(video_frame(VCodec::H264, false, false, 2, 5).0), key: false });
                    if let Some(a) = audio {
                        ops.push(Op::WA { pts: T(unit), data: Bytes::new(audio_frame(a, 1, 6).0) });
                    }
                    out.push((cfg, ops, format!("look-alike {} in a parameter set (+{tail} bytes)", String::from_utf8_lossy(code))));
                }
            }
        }
    }
    // payload shapes for the codecs whose frames are stored unchanged: bytes that look like Annex B
    // start codes, ADTS sync words or trailing padding must survive (AV1, VP9, Opus; AAC payload)
    {
        use oracle::frames::{adts_frame as _, av1_seq_obu, obu, AdtsHdr, SeqHdr, Vp9Hdr};
        let shapes: Vec<(&str, Vec<u8>)> = vec![
            ("trailing zeros", vec![0x5a, 0x11, 0, 0, 0]),
            ("3-byte start code inside", vec![0x5a, 0, 0, 1, 0x65, 0x88]),
            ("4-byte start code at the end", vec![0x5a, 0x33, 0, 0, 0, 1]),
            ("starts with a start code", vec![0, 0, 0, 1, 0x67, 0x42]),
            ("ADTS sync inside", vec![0x21, 0xff, 0xf1, 0x50, 0x80, 0x01, 0x7f, 0xfc, 0x21]),
            ("emulation prevention", vec![0x5a, 0, 0, 3, 1, 0, 0, 3]),
            ("all zeros", vec![0; 9]),
            ("all ones", vec![0xff; 9]),
        ];
        for (name, sh) in &shapes {
            for fs in [true, false] {
                for vc in [VCodec::Av1, VCodec::Vp9] {
                    for ac in [ACodec::Opus, ACodec::AacLc] {
                        let cfg = Cfg::basic(vc, Some(ac), fs);
                        let mut ops = vec![];
                        for i in 0..2usize {
                            let key = i == 0;
                            let v = match vc {
                                VCodec::Av1 => {
                                    let mut o = obu(2, false, true, &[]);
                                    if key {
                                        o.extend(av1_seq_obu(&SeqHdr::default().normalised()));
                                    }
                                    let mut p = vec![if key { 0x10 } else { 0x30 }];
                                    p.extend_from_slice(sh);
                                    o.extend(obu(6, false, true, &p));
                                    o
                                }
                                _ => {
                                    let mut o = Vp9Hdr::default().header(key);
                                    o.extend_from_slice(sh);
                                    o
                                }
                            };
                            ops.push(Op::WV { pts: T(i as f64 * unit), data: Bytes::new(v), key });
                            let a = if ac == ACodec::Opus {
                                let mut p = vec![15 << 3];
                                p.extend_from_slice(sh);
                                p
                            } else {
                                let mut f = AdtsHdr { frame_length: (7 + sh.len()) as u16, ..Default::default() }.bytes();
                                f.extend_from_slice(sh);
                                f
                            };
                            ops.push(Op::WA { pts: T(i as f64 * unit), data: Bytes::new(a) });
                        }
                        out.push((cfg, ops, format!("payload shape: {name}")));
                    }
                }
            }
        }
    }
    // one history per layout with more than 2^16 samples per track (16-bit counters, table
    // entry counts, chunk bookkeeping)
    for fs in [true, false] {
        let n = 66_000usize;
        let cfg = Cfg::basic(VCodec::Vp9, Some(ACodec::Opus), fs);
        let mut ops = Vec::with_capacity(2 * n);
        let vk = Bytes::new(video_frame(VCodec::Vp9, true, true, 1, 3).0);
        let vd = Bytes::new(video_frame(VCodec::Vp9, false, false, 2, 2).0);
        let au = Bytes::new(audio_frame(ACodec::Opus, 3, 3).0);
        for i in 0..n {
            ops.push(Op::WV { pts: T(i as f64 * unit), data: if i % 250 == 0 { vk.clone() } else { vd.clone() }, key: i % 250 == 0 });
            ops.push(Op::WA { pts: T(i as f64 * unit), data: au.clone() });
        }
        out.push((cfg, ops, format!("{n} samples per track")));
        // the same long video track with a sparse audio track that starts late: audio sample j
        // shares its tick with a video frame whose index is beyond 2^16 (keys that pack an
        // index next to a track kind have their overflow there)
        let cfg = Cfg::basic(VCodec::H264, Some(ACodec::AacLc), fs);
        let mut ops = Vec::with_capacity(n + 8);
        let vk = Bytes::new(video_frame(VCodec::H264, true, true, 1, 3).0);
        let vd = Bytes::new(video_frame(VCodec::H264, false, false, 4, 2).0);
        for i in 0..n {
            ops.push(Op::WV { pts: T(i as f64 * unit), data: if i % 250 == 0 { vk.clone() } else { vd.clone() }, key: i % 250 == 0 });
            if [65_535usize, 65_536, 65_537, 65_539, 65_540, 65_999].contains(&i) {
                ops.push(Op::WA { pts: T(i as f64 * unit), data: Bytes::new(audio_frame(ACodec::AacLc, i as u32, 4 + i % 3).0) });
            }
        }
        out.push((cfg, ops, format!("{n} video samples, 6 late audio samples on shared ticks")));
    }
    // audio parameters: every audio kind x channel counts (the Opus description changes shape
    // beyond two channels) x sample rates, both layouts
    for &ac in oracle::frames::ACODECS.iter() {
        let chans: Vec<u16> = if ac.is_aac() { vec![1, 2, 3, 6, 8] } else { vec![1, 2, 3, 6, 8, 9, 255] };
        for ch in chans {
            for rate in [8_000u32, 44_100, 48_000] {
                for fs in [true, false] {
                    let mut cfg = Cfg::basic(VCodec::H264, Some(ac), fs);
                    cfg.audio = Some(oracle::model::AudioCfg { codec: ac, rate, channels: ch });
                    let mut ops = vec![];
                    for i in 0..2usize {
                        ops.push(Op::WV { pts: T(i as f64 * unit), data: Bytes::new(video_frame(VCodec::H264, i == 0, i == 0, i as u32 + 1, 5).0), key: i == 0 });
                        ops.push(Op::WA { pts: T(i as f64 * unit), data: Bytes::new(audio_frame(ac, i as u32, 6).0) });
                    }
                    out.push((cfg, ops, format!("audio {ac:?} {ch} channels at {rate} Hz")));
                }
            }
        }
    }
    // single-unit frames of every length 1..=400 behind a short and behind a long start code (a
    // frame whose first bytes happen to read as a length that covers the rest of the frame is
    // still Annex B): one history per codec and start-code form
    for codec in [VCodec::H264, VCodec::H265] {
        for mode in [0u32, 3] {
            let cfg = Cfg::basic(codec, None, mode == 0);
            let mut ops = vec![Op::WV { pts: T(0.0), data: Bytes::new(video_frame(codec, true, true, 4, 5).0), key: true }];
            for len in 1..=400usize {
                let mut u = vec![if codec == VCodec::H264 { 0x41 } else { 0x02 }];
                if codec == VCodec::H265 {
                    u.push(0x01);
                }
                u.extend(oracle::frames::body(len as u32, len));
                ops.push(Op::WV { pts: T(len as f64 * unit), data: Bytes::new(oracle::frames::annexb_mode(&[u], mode)), key: false });
            }
            out.push((cfg, ops, format!("{codec:?} single-unit frames of 1..400 bytes, start-code mode {mode}")));
        }
    }
    out
}

/// "one track per configured stream": audio codec None configures no stream, whether it is the
/// only audio call or switches a previously configured codec off again (C02's track clause on
/// builder paths the Cfg type cannot express).
pub fn audio_none_part() -> Tally {
    use muxide::api::{AudioCodec, MuxerBuilder};
    let mut t = Tally::default();
    let mut k = 0u64;
    for codec in oracle::frames::VCODECS {
        for fast in [true, false] {
            for variant in 0..4usize {
                for nframes in [0usize, 2] {
                    k += 1;
                    t.evaluations += 1;
                    let sink = crate::run::RecSink::default();
                    let st = sink.0.clone();
                    let mut b = MuxerBuilder::new(sink).video(crate::run::vcodec(codec), 640, 480, 30.0).with_fast_start(fast);
                    b = match variant {
                        0 => b.audio(AudioCodec::None, 48000, 2),
                        1 => b.set_audio_track(AudioCodec::None, 0, 0),
                        2 => b.audio(AudioCodec::Opus, 48000, 2).audio(AudioCodec::None, 48000, 2),
                        _ => b.set_audio_track(AudioCodec::Aac(muxide::api::AacProfile::Lc), 44100, 1).set_audio_track(AudioCodec::None, 0, 0),
                    };
                    let cfg = Cfg::basic(codec, None, fast);
                    let r = oracle::report::guarded(|| {
                        let mut m = b.build().map_err(|e| e.to_string())?;
                        for i in 0..nframes {
                            let (d, _) = oracle::frames::video_frame(codec, i == 0, i == 0, i as u32 + 1, 5);
                            m.write_video(i as f64 / 30.0, &d, i == 0).map_err(|e| e.to_string())?;
                        }
                        m.finish_in_place().map_err(|e| e.to_string())
                    });
                    let case = || json!({"engine": "E1-audio-none", "codec": codec, "fast_start": fast, "variant": variant, "frames": nframes});
                    match r {
                        Err(p) => t.violation("C02/audio-none/panic", (4_000_000, k), || format!("{codec:?} variant {variant}: {p}"), case),
                        Ok(Err(e)) => {
                            // zero frames of a codec without a default configuration may be refused
                            if nframes > 0 {
                                t.violation("C02/audio-none/refused", (4_000_000, k), || format!("{codec:?} variant {variant}: {e}"), case);
                            }
                        }
                        Ok(Ok(())) => {
                            let bytes = st.borrow().bytes.clone();
                            t.outcome(oracle::report::h64(&bytes));
                            let m = parse_movie(&bytes, "prog");
                            for (sig, detail) in fileck::c02_progressive(&m, &cfg) {
                                t.violation(&format!("C02/audio-none/{}", stable_sig(&sig)), (4_000_000, k), || format!("{codec:?} fast {fast}: audio codec None (variant {variant}: 0/1 = only call, 2/3 = after a real codec) must configure no audio stream: {detail}"), case);
                            }
                        }
                    }
                }
            }
        }
    }
    t
}

pub fn scaling_part(ctx: &Ctx, p: FileProp) -> Tally {
    let max = if ctx.thorough { 120 } else { 48 };
    let hs = scaling_histories(max);
    let chunks: Vec<&[(Cfg, Vec<Op>, String)]> = hs.chunks(8).collect();
    let mut t = par_items(&chunks, ctx.seed, |idx, ch, t| {
        for (k, (cfg, ops, _)) in ch.iter().enumerate() {
            judge_history(p, cfg, ops, (7_000_000 + idx as u64, k as u64), t);
        }
    });
    t.count("scaling_histories", hs.len() as u64);
    t
}
