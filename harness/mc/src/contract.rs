//! C04 (contract), C05 (rejected calls leave no trace), C06 (finalisation and accounting):
//! exhaustive exploration of call histories over a relative-symbol alphabet, with the executable
//! contract model stepped in lock-step with the real muxer.

use crate::run::{apply, builder, RecSink};
use oracle::fileck::expect_from;
use oracle::frames::{self, ACodec, AdtsHdr, VCodec, VCODECS};
use oracle::model::{brief_ops, Bytes, Cfg, Contract, Op, Res, Verdict, Viol, T};
use oracle::report::{finish, guarded, par_items, Ctx, Fnv, Meta, Tally};
use serde_json::{json, Value};

const FRAME: f64 = 1.0 / 30.0;
const TICK: f64 = 1.0 / 90000.0;

#[derive(Clone, Copy, PartialEq, Eq, Debug, Hash)]
pub enum Sym {
    WvKey,
    WvDelta,
    WvKeyNoCfg,
    WvKeyNoCfgFar,
    WvKeyShort,
    WvCfgNoIdr,
    WvEmpty,
    WvEqual,
    WvSubTick,
    WvNaN,
    WvInf,
    WvNeg,
    WvNegZero,
    WvTinyNeg,
    WvdPlain,
    WvdPts2,
    WvdB,
    WvdEqual,
    WvdBack,
    WvdNaN,
    WvdNeg,
    WvdNegZero,
    WvdGap,
    WvdHalfGap,
    WvdAlmostHalfGap,
    WvdBHalf,
    WvdBigCts,
    WvdHuge,
    WvdHugePts,
    WvdHugeDts,
    WaEqual,
    WaPlus,
    WaHalfGap,
    WaAlmostHalfGap,
    WaMinus,
    WaBeforeVideo,
    WaJustBeforeVideo,
    WaBadSync,
    WaBadLen,
    WaHeaderOnly,
    WaEmpty,
    WaNaN,
    WaNeg,
    WaNegZero,
    EvKey,
    EvDelta,
    EvEmpty,
    EaOk,
    EaOdd,
    EaBad,
    Fin,
    FinStats,
    FinConsume,
    FinConsumeStats,
    FlushConsume,
}

pub const FULL: &[Sym] = &[
    Sym::WvKey,
    Sym::WvDelta,
    Sym::WaPlus,
    Sym::Fin,
    Sym::WvdPlain,
    Sym::WvdPts2,
    Sym::WvdB,
    Sym::WaEqual,
    Sym::WvKeyNoCfg,
    Sym::WvKeyNoCfgFar,
    Sym::WvKeyShort,
    Sym::WvCfgNoIdr,
    Sym::WvEmpty,
    Sym::WvEqual,
    Sym::WvSubTick,
    Sym::WvNaN,
    Sym::WvInf,
    Sym::WvNeg,
    Sym::WvNegZero,
    Sym::WvTinyNeg,
    Sym::WvdEqual,
    Sym::WvdBack,
    Sym::WvdNaN,
    Sym::WvdNeg,
    Sym::WvdNegZero,
    Sym::WvdGap,
    Sym::WvdHalfGap,
    Sym::WvdAlmostHalfGap,
    Sym::WvdBHalf,
    Sym::WvdBigCts,
    Sym::WaHalfGap,
    Sym::WaAlmostHalfGap,
    Sym::WvdHuge,
    Sym::WvdHugePts,
    Sym::WvdHugeDts,
    Sym::WaMinus,
    Sym::WaBeforeVideo,
    Sym::WaJustBeforeVideo,
    Sym::WaBadSync,
    Sym::WaBadLen,
    Sym::WaHeaderOnly,
    Sym::WaEmpty,
    Sym::WaNaN,
    Sym::WaNeg,
    Sym::WaNegZero,
    Sym::EvKey,
    Sym::EvDelta,
    Sym::EvEmpty,
    Sym::EaOk,
    Sym::EaOdd,
    Sym::EaBad,
];

/// one symbol per guard: the sub-alphabet used for the deeper runs
pub const CORE: &[Sym] = &[
    Sym::WvKey,
    Sym::WvDelta,
    Sym::WaPlus,
    Sym::Fin,
    Sym::WvdPts2,
    Sym::WvKeyNoCfg,
    Sym::WvEqual,
    Sym::WvdBack,
    Sym::WaMinus,
    Sym::WaBeforeVideo,
    Sym::WaBadSync,
    Sym::WvdGap,
    Sym::WvdHalfGap,
    Sym::WvdBigCts,
    Sym::WaAlmostHalfGap,
    Sym::EvKey,
];

/// the automatic-timestamp entry points only, explored deeper: their clocks are state that
/// only they read
pub const CONV: &[Sym] = &[Sym::EvKey, Sym::EvDelta, Sym::EvEmpty, Sym::EaOk, Sym::EaOdd, Sym::EaBad];

pub struct Fixtures {
    key_cfg: Vec<Bytes>,
    delta: Vec<Bytes>,
    key_nocfg: Vec<Bytes>,
    /// the shortest keyframe that still carries its configuration (VP9: the header cut right
    /// after the colour byte, whose colour-space bits are set; others: a one-byte slice body)
    key_short: Bytes,
    cfg_noidr: Vec<Bytes>,
    audio_ok: Vec<Bytes>,
    bad_sync: Bytes,
    bad_len: Bytes,
    header_only: Bytes,
    empty: Bytes,
}

pub const MAX_DEPTH: usize = 8;

impl Fixtures {
    pub fn new(cfg: &Cfg) -> Fixtures {
        let c = cfg.codec;
        let mut f = Fixtures {
            key_cfg: vec![],
            delta: vec![],
            key_nocfg: vec![],
            key_short: Bytes::new(match c {
                VCodec::Vp9 => {
                    let mut h = frames::Vp9Hdr { width: 100, height: 100, color_space: 2, ..Default::default() }.header(true);
                    h.pop();
                    h
                }
                _ => frames::video_frame(c, true, true, 1, 1).0,
            }),
            cfg_noidr: vec![],
            audio_ok: vec![],
            bad_sync: Bytes::new(vec![]),
            bad_len: Bytes::new(vec![]),
            header_only: Bytes::new(vec![]),
            empty: Bytes::new(vec![]),
        };
        for i in 0..MAX_DEPTH as u32 {
            f.key_cfg.push(Bytes::new(frames::video_frame_variant(c, true, true, i + 1, 3 + i as usize, (i % 4) as u8).0));
            f.delta.push(Bytes::new(frames::video_frame(c, false, false, i + 1, 3 + i as usize).0));
            f.key_nocfg.push(Bytes::new(match c {
                VCodec::Vp9 => {
                    // flagged as key by the caller but the header is an inter-frame header
                    frames::vp9_frame(false, i + 1, 3 + i as usize)
                }
                _ => frames::video_frame(c, true, false, i + 1, 3 + i as usize).0,
            }));
            f.cfg_noidr.push(Bytes::new(match c {
                VCodec::H264 | VCodec::H265 => frames::annexb(&frames::nal_units(c, false, true, i + 1, 3 + i as usize), false),
                VCodec::Av1 => frames::av1_frame(false, true, i + 1, 3 + i as usize),
                VCodec::Vp9 => frames::vp9_frame(false, i + 1, 3 + i as usize),
            }));
            if let Some(a) = &cfg.audio {
                // tags run from 2: the packet of step 1 is the code-3 Opus packet whose TOC byte the
                // invalid code-3 fixtures share
                // the Opus packet of step 2 is a lone TOC byte (an empty frame), the shortest legal packet
                f.audio_ok.push(Bytes::new(frames::audio_frame(a.codec, i + 2, if !a.codec.is_aac() && i == 2 { 0 } else { 4 + i as usize }).0));
            }
        }
        match cfg.audio.as_ref().map(|a| a.codec) {
            Some(ACodec::Opus) => {
                f.bad_sync = Bytes::new(vec![0x03, 0x00, 0x55]); // code 3 with frame count 0
                f.bad_len = Bytes::new(vec![0x03]); // code 3 without its count byte
                f.header_only = Bytes::new(vec![0x03, 0x80, 0x41]); // code 3, VBR bit, M = 0
            }
            Some(_) => {
                let mut b = frames::adts_frame(9, 5, false).0;
                b[1] = 0x61; // destroys the sync word
                f.bad_sync = Bytes::new(b);
                let mut h = AdtsHdr { frame_length: 40, ..Default::default() }.bytes();
                h.extend_from_slice(&[0x55; 5]); // declares 40 bytes, buffer holds 12
                f.bad_len = Bytes::new(h);
                f.header_only = Bytes::new(AdtsHdr { frame_length: 7, ..Default::default() }.bytes());
            }
            None => {
                // audio not configured: any bytes do
                f.audio_ok = (0..MAX_DEPTH as u32).map(|i| Bytes::new(frames::adts_frame(i, 4, false).0)).collect();
                f.bad_sync = Bytes::new(vec![1, 2, 3, 4, 5, 6, 7, 8]);
                f.bad_len = f.bad_sync.clone();
                f.header_only = f.bad_sync.clone();
            }
        }
        f
    }
}

/// Turn a relative symbol into a concrete call, given the model state (what was accepted so far).
pub fn concretize(sym: Sym, step: usize, m: &Contract, fx: &Fixtures) -> Op {
    let i = step.min(MAX_DEPTH - 1);
    let last_p = m.last_video_pts;
    let last_d = m.last_video_dts_secs;
    // a time that is one frame after everything accepted so far (valid for both entry points)
    let next = match (last_p, last_d) {
        (None, None) => 1.0,
        (p, d) => p.unwrap_or(0.0).max(d.unwrap_or(0.0)) + FRAME,
    };
    let first = m.first_video_pts;
    let a_base = m.last_audio_pts.or(first).unwrap_or(1.0);
    let wv = |pts: f64, data: &Bytes, key: bool| Op::WV { pts: T(pts), data: data.clone(), key };
    let wvd = |pts: f64, dts: f64, data: &Bytes, key: bool| Op::WVD { pts: T(pts), dts: T(dts), data: data.clone(), key };
    let wa = |pts: f64, data: &Bytes| Op::WA { pts: T(pts), data: data.clone() };
    // content for "a further ordinary frame": key with config if nothing accepted yet
    let ordinary = |m: &Contract| if m.accepted_video == 0 { (&fx.key_cfg[i], true) } else { (&fx.delta[i], false) };
    match sym {
        Sym::WvKey => wv(next, &fx.key_cfg[i], true),
        Sym::WvDelta => wv(next, &fx.delta[i], false),
        Sym::WvKeyNoCfg => wv(next, &fx.key_nocfg[i], true),
        // a keyframe without configuration 1000 s further on: as a first frame it is rejected at a
        // time that differs from the time of the frame that will start the track
        Sym::WvKeyNoCfgFar => wv(next + 1000.0, &fx.key_nocfg[i], true),
        Sym::WvKeyShort => wv(next, &fx.key_short, true),
        Sym::WvCfgNoIdr => wv(next, &fx.cfg_noidr[i], false),
        Sym::WvEmpty => wv(next, &fx.empty, true),
        Sym::WvEqual => {
            let (d, k) = ordinary(m);
            wv(last_p.unwrap_or(next), d, k)
        }
        Sym::WvSubTick => {
            let (d, k) = ordinary(m);
            wv(last_p.map(|p| p.max(last_d.unwrap_or(0.0)) + 0.4 * TICK).unwrap_or(next), d, k)
        }
        Sym::WvNaN => {
            let (d, k) = ordinary(m);
            wv(f64::NAN, d, k)
        }
        Sym::WvInf => {
            let (d, k) = ordinary(m);
            wv(f64::INFINITY, d, k)
        }
        Sym::WvNeg => {
            let (d, k) = ordinary(m);
            wv(-1.0, d, k)
        }
        // negative zero is finite and not less than zero: a legal first timestamp (tick 0)
        Sym::WvNegZero => {
            let (d, k) = ordinary(m);
            wv(-0.0, d, k)
        }
        // a nanosecond before zero rounds to tick 0 but is negative
        Sym::WvTinyNeg => {
            let (d, k) = ordinary(m);
            wv(-1e-9, d, k)
        }
        Sym::WvdPlain => {
            let (d, k) = ordinary(m);
            wvd(next, next, d, k)
        }
        Sym::WvdPts2 => {
            let (d, k) = ordinary(m);
            wvd(next + 2.0 * FRAME, next, d, k)
        }
        Sym::WvdB => {
            // a B-frame: next in decode order, presented at its decode time (which lies before
            // the presentation time of an earlier WvdPts2 frame)
            let (d, k) = ordinary(m);
            let t = last_d.map(|x| x + FRAME).unwrap_or(next);
            wvd(t, t, d, k)
        }
        Sym::WvdEqual => {
            let (d, k) = ordinary(m);
            let t = last_d.unwrap_or(next);
            wvd(t + FRAME, t, d, k)
        }
        Sym::WvdBack => {
            let (d, k) = ordinary(m);
            let t = last_d.map(|x| (x - FRAME).max(0.0)).unwrap_or(next);
            wvd(t + 5.0 * FRAME, t, d, k)
        }
        Sym::WvdNaN => {
            let (d, k) = ordinary(m);
            wvd(next, f64::NAN, d, k)
        }
        Sym::WvdNeg => {
            let (d, k) = ordinary(m);
            wvd(next, -1.0, d, k)
        }
        Sym::WvdNegZero => {
            let (d, k) = ordinary(m);
            wvd(-0.0, -0.0, d, k)
        }
        Sym::WvdGap => {
            let (d, k) = ordinary(m);
            // exactly 2^32 ticks after the last accepted decode time: one more than the field holds
            let base = last_d.unwrap_or(0.0);
            let t = base + 4294967296.0 / 90000.0 + 3.0 * FRAME;
            wvd(t, t, d, k)
        }
        Sym::WvdHalfGap => {
            // a gap that fits the 32-bit sample duration but, repeated for the last sample, makes
            // the track duration exceed 32 bits (the cumulative rule)
            let (d, k) = ordinary(m);
            let t = last_d.unwrap_or(0.0) + (2147483648.0 + 3000.0) / 90000.0;
            wvd(t, t, d, k)
        }
        Sym::WvdBigCts => {
            // valid decode time (two frames on, so the interval differs from the previous one)
            // but a composition offset that does not fit the signed 32-bit field
            let (d, k) = ordinary(m);
            let t = last_d.map(|x| x + 2.0 * FRAME).unwrap_or(next);
            wvd(t + (2147483648.0 + 9000.0) / 90000.0, t, d, k)
        }
        Sym::WvdAlmostHalfGap => {
            // the largest gap whose doubled value still fits 32 bits when it is the second frame
            // (just inside the cumulative rule)
            let (d, k) = ordinary(m);
            let t = last_d.unwrap_or(0.0) + (2147483648.0 - 900.0) / 90000.0;
            wvd(t, t, d, k)
        }
        Sym::WvdBHalf => {
            // half a frame after the last decode time, presented at its decode time: makes
            // sample durations unequal in reordered streams
            let (d, k) = ordinary(m);
            let t = last_d.map(|x| x + FRAME / 2.0).unwrap_or(next);
            wvd(t, t, d, k)
        }
        Sym::WvdHuge => {
            let (d, k) = ordinary(m);
            wvd(1e300, 1e300, d, k)
        }
        // one of the two times saturates the 64-bit tick counter while the other is ordinary: the
        // composition offset is about 2^64 ticks (far outside the 32-bit field), yet its value
        // modulo 2^64 is small
        Sym::WvdHugePts => {
            let (d, k) = ordinary(m);
            wvd(1e300, next, d, k)
        }
        Sym::WvdHugeDts => {
            let (d, k) = ordinary(m);
            wvd(next, 1e300, d, k)
        }
        Sym::WaEqual => wa(a_base, &fx.audio_ok[i]),
        Sym::WaPlus => wa(a_base + 0.02, &fx.audio_ok[i]),
        Sym::WaHalfGap => wa(a_base + (2147483648.0 + 1800.0) / 90000.0, &fx.audio_ok[i]),
        Sym::WaAlmostHalfGap => wa(a_base + (2147483648.0 - 900.0) / 90000.0, &fx.audio_ok[i]),
        Sym::WaMinus => wa((a_base - 0.01).max(0.0), &fx.audio_ok[i]),
        Sym::WaBeforeVideo => wa(first.map(|f| (f - 0.5).max(0.0)).unwrap_or(0.25), &fx.audio_ok[i]),
        // a microsecond before the first video frame: earlier in seconds, the same 90 kHz tick
        Sym::WaJustBeforeVideo => wa(first.map(|f| (f - 1e-6).max(0.0)).unwrap_or(0.25), &fx.audio_ok[i]),
        Sym::WaBadSync => wa(a_base + 0.5, &fx.bad_sync),
        Sym::WaBadLen => wa(a_base + 0.5, &fx.bad_len),
        Sym::WaHeaderOnly => wa(a_base + 0.5, &fx.header_only),
        Sym::WaEmpty => wa(a_base + 0.02, &fx.empty),
        Sym::WaNaN => wa(f64::NAN, &fx.audio_ok[i]),
        Sym::WaNeg => wa(-1.0, &fx.audio_ok[i]),
        Sym::WaNegZero => wa(-0.0, &fx.audio_ok[i]),
        Sym::EvKey => Op::EV { data: fx.key_cfg[i].clone(), dur_ms: 33 },
        Sym::EvDelta => Op::EV { data: fx.delta[i].clone(), dur_ms: 40 },
        Sym::EvEmpty => Op::EV { data: fx.empty.clone(), dur_ms: 33 },
        Sym::EaOk => Op::EA { data: fx.audio_ok[i].clone(), samples: 1024 },
        // 100 samples at 48 kHz = 187.5 ticks: every other frame lands on a half tick, where the
        // smallest error of the automatic clock is visible
        Sym::EaOdd => Op::EA { data: fx.audio_ok[i].clone(), samples: 100 },
        Sym::EaBad => Op::EA { data: fx.bad_sync.clone(), samples: 1024 },
        Sym::Fin => Op::FinishInPlace,
        Sym::FinStats => Op::FinishInPlaceStats,
        Sym::FinConsume => Op::Finish,
        Sym::FinConsumeStats => Op::FinishStats,
        Sym::FlushConsume => Op::Flush,
    }
}

#[derive(Clone, Debug)]
pub struct Trace {
    pub ops: Vec<Op>,
    pub results: Vec<Res>,
    pub verdicts: Vec<Verdict>,
    pub bytes: Vec<u8>,
    pub writes: Vec<(u32, u32)>,
}

/// Run a history with the model in lock-step. `next` yields the i-th call from the model state.
pub fn live_run(cfg: &Cfg, mut next: impl FnMut(usize, &Contract) -> Option<Op>) -> Trace {
    let sink = RecSink::default();
    let state = sink.0.clone();
    let mut mux = match guarded(|| builder(cfg, sink).build()) {
        Ok(Ok(m)) => Some(m),
        _ => None,
    };
    let mut model = Contract::new(cfg);
    let mut tr = Trace { ops: vec![], results: vec![], verdicts: vec![], bytes: vec![], writes: vec![] };
    let mut i = 0;
    while let Some(op) = next(i, &model) {
        state.borrow_mut().cur_op = i as u32;
        let v = model.judge(&op);
        let r = apply(&mut mux, &op);
        model.advance(&op, r.is_ok());
        tr.ops.push(op);
        tr.results.push(r);
        tr.verdicts.push(v);
        i += 1;
    }
    drop(mux);
    let st = std::mem::take(&mut *state.borrow_mut());
    tr.bytes = st.bytes;
    tr.writes = st.writes;
    tr
}

pub fn run_syms(cfg: &Cfg, fx: &Fixtures, syms: &[Sym], then_finish: bool) -> Trace {
    live_run(cfg, |i, m| {
        if i < syms.len() {
            Some(concretize(syms[i], i, m, fx))
        } else if i == syms.len() && then_finish {
            Some(Op::FinishInPlaceStats)
        } else {
            None
        }
    })
}

pub fn run_ops(cfg: &Cfg, ops: &[Op]) -> Trace {
    live_run(cfg, |i, _| ops.get(i).cloned())
}

fn case(cfg: &Cfg, tr: &Trace, syms: Option<&[Sym]>) -> Value {
    json!({"engine": "contract", "cfg": cfg, "ops": tr.ops, "brief": brief_ops(&tr.ops), "symbols": syms.map(|s| format!("{s:?}"))})
}

// ---------------------------------------------------------------------------------------------
// oracles
// ---------------------------------------------------------------------------------------------

/// C04 on one trace: every call succeeds iff the verdict set is empty; an error names a member.
pub fn c04_issues(tr: &Trace) -> Vec<(String, String)> {
    let mut out = vec![];
    for (i, ((op, r), v)) in tr.ops.iter().zip(&tr.results).zip(&tr.verdicts).enumerate() {
        let name = match op {
            Op::WV { .. } => "write_video",
            Op::WVD { .. } => "write_video_with_dts",
            Op::WA { .. } => "write_audio",
            Op::EV { .. } => "encode_video",
            Op::EA { .. } => "encode_audio",
            _ => "finish",
        };
        match r {
            Res::NotRun => {}
            Res::Panic(m) => out.push((format!("{name}/panic"), format!("call {i} {} panicked: {m}", op.brief()))),
            Res::Ok | Res::OkStats(_) => {
                if !v.viol.is_empty() && !v.either {
                    out.push((format!("{name}/accepted-despite/{:?}", v.viol[0]), format!("call {i} {} succeeded although the contract is violated: {:?}", op.brief(), v.viol)));
                }
            }
            Res::Err(class, dbg) => {
                if v.viol.is_empty() && !v.either {
                    out.push((format!("{name}/rejected-valid/{class:?}"), format!("call {i} {} failed with {dbg} although no precondition is violated", op.brief())));
                } else if !v.viol.contains(class) && !(v.either && matches!(class, Viol::BadAudioFraming | Viol::EmptyData)) {
                    out.push((format!("{name}/wrong-error/{class:?}"), format!("call {i} {} failed with {dbg}; violated preconditions are {:?}", op.brief(), v.viol)));
                }
            }
        }
    }
    out
}

fn res_key(r: &Res) -> String {
    match r {
        // frame_index inside error values counts accepted frames, so it is equal in H and H'
        Res::Err(_, d) => format!("Err({d})"),
        o => o.brief(),
    }
}

/// C05: for EVERY rejected call r of history H, H without r must give the same result for every
/// other call (accepted or rejected alike), the same statistics and the same output bytes; and
/// so must H with all rejected calls removed at once. Differential: no hand-written expectation.
pub fn c05_issues(cfg: &Cfg, tr: &Trace) -> (Vec<(String, String)>, u64) {
    let mut out = vec![];
    let mut runs = 0u64;
    let rejected: Vec<usize> = (0..tr.ops.len()).filter(|&i| !tr.ops[i].is_finish() && matches!(tr.results[i], Res::Err(..))).collect();
    if rejected.is_empty() {
        return (out, runs);
    }
    let reason = |i: usize| match &tr.results[i] {
        Res::Err(c, _) => format!("{c:?}"),
        _ => "?".into(),
    };
    let mut variants: Vec<(Vec<usize>, String)> = rejected.iter().map(|&r| (vec![r], format!("rejected call {r} {} ({})", tr.ops[r].brief(), reason(r)))).collect();
    if rejected.len() > 1 {
        variants.push((rejected.clone(), format!("all {} rejected calls", rejected.len())));
    }
    for (removed, what) in variants {
        let kept: Vec<usize> = (0..tr.ops.len()).filter(|i| !removed.contains(i)).collect();
        let ops2: Vec<Op> = kept.iter().map(|&i| tr.ops[i].clone()).collect();
        let tr2 = run_ops(cfg, &ops2);
        runs += 1;
        let mut differs = false;
        for (k, &i) in kept.iter().enumerate() {
            if res_key(&tr.results[i]) != res_key(&tr2.results[k]) {
                let kind = if tr.ops[i].is_finish() { "finish-result" } else { "later-decision" };
                out.push((
                    format!("{kind}-differs"),
                    format!("removing {what}: call {} gives {} with it present and {} with it removed", tr.ops[i].brief(), res_key(&tr.results[i]).chars().take(160).collect::<String>(), res_key(&tr2.results[k]).chars().take(160).collect::<String>()),
                ));
                differs = true;
                break;
            }
        }
        if !differs && tr.bytes != tr2.bytes {
            let pos = tr.bytes.iter().zip(&tr2.bytes).position(|(a, b)| a != b).unwrap_or(tr.bytes.len().min(tr2.bytes.len()));
            out.push(("file-differs".to_string(), format!("removing {what}: output differs at byte {pos} (lengths {} / {})", tr.bytes.len(), tr2.bytes.len())));
        }
        if !out.is_empty() {
            break;
        }
    }
    (out, runs)
}

/// C06: sink silence before/after, single successful finish, statistics.
pub fn c06_issues(cfg: &Cfg, tr: &Trace) -> Vec<(String, String)> {
    let mut out = vec![];
    if tr.results.iter().any(|r| matches!(r, Res::Panic(_))) {
        return out;
    }
    let first_ok_finish = (0..tr.ops.len()).find(|&i| tr.ops[i].is_finish() && tr.results[i].is_ok());
    for &(op, len) in &tr.writes {
        if Some(op as usize) != first_ok_finish {
            let o = &tr.ops[op as usize];
            let when = match first_ok_finish {
                Some(f) if (op as usize) > f => "after-finish",
                _ => "before-finish",
            };
            out.push((format!("sink-write-{when}/{}", if o.is_finish() { "finish" } else { "write" }), format!("{len} bytes reached the sink during call {op} {} ({})", o.brief(), tr.results[op as usize].brief())));
            break;
        }
    }
    if let Some(f) = first_ok_finish {
        for i in f + 1..tr.ops.len() {
            if tr.results[i].is_ok() {
                out.push((format!("accepted-after-finish/{}", if tr.ops[i].is_finish() { "finish" } else { "write" }), format!("call {i} {} succeeded after the muxer was finished", tr.ops[i].brief())));
                break;
            }
        }
        // finish attempts before the first successful one must not exist with a healthy sink
        for i in 0..f {
            if tr.ops[i].is_finish() {
                out.push(("finish-failed-with-healthy-sink".into(), format!("call {i} {} -> {}", tr.ops[i].brief(), tr.results[i].brief())));
            }
        }
        if let Res::OkStats(s) = &tr.results[f] {
            let e = expect_from(cfg, &tr.ops[..f], &tr.results[..f]);
            if s.video_frames != e.video.len() as u64 || s.audio_frames != e.audio.len() as u64 {
                out.push(("stats/frame-counts".into(), format!("stats report v{} a{}, accepted v{} a{}", s.video_frames, s.audio_frames, e.video.len(), e.audio.len())));
            }
            if s.bytes_written != tr.bytes.len() as u64 {
                out.push(("stats/bytes-written".into(), format!("stats report {} bytes, the sink received {}", s.bytes_written, tr.bytes.len())));
            }
            // largest presentation end time over all accepted samples
            let end = |v: &[oracle::fileck::ExpSample]| -> Option<u128> {
                let n = v.len();
                (0..n)
                    .map(|i| {
                        let d = if i + 1 < n {
                            v[i + 1].dts - v[i].dts
                        } else if n >= 2 {
                            v[n - 1].dts - v[n - 2].dts
                        } else {
                            0
                        };
                        v[i].pts as u128 + d as u128
                    })
                    .max()
            };
            let want = end(&e.video).into_iter().chain(end(&e.audio)).max().unwrap_or(0);
            if want < (1u128 << 53) {
                let got = s.duration_secs.0 * 90000.0;
                if (got - want as f64).abs() > 1.0 + 1e-6 {
                    out.push(("stats/duration".into(), format!("stats report {} s = {got} ticks, the largest presentation end time is {want} ticks", s.duration_secs.0)));
                }
            }
        }
    } else if !tr.writes.is_empty() {
        // already reported above as before-finish
    }
    out
}

// ---------------------------------------------------------------------------------------------
// exploration
// ---------------------------------------------------------------------------------------------

fn all_seqs(alpha: &[Sym], depth: usize) -> Vec<Vec<Sym>> {
    // prefixes of length 2 (or 1) as work items; the rest is enumerated inside the worker
    let mut out = vec![];
    if depth == 0 {
        return vec![vec![]];
    }
    for &a in alpha {
        if depth == 1 {
            out.push(vec![a]);
        } else {
            for &b in alpha {
                out.push(vec![a, b]);
            }
        }
    }
    out
}

/// enumerate every extension of `prefix` to exactly `depth` symbols
fn extend(prefix: &[Sym], alpha: &[Sym], depth: usize, f: &mut impl FnMut(&[Sym])) {
    fn rec(cur: &mut Vec<Sym>, alpha: &[Sym], depth: usize, f: &mut impl FnMut(&[Sym])) {
        if cur.len() == depth {
            f(cur);
            return;
        }
        for &a in alpha {
            cur.push(a);
            rec(cur, alpha, depth, f);
            cur.pop();
        }
    }
    let mut cur = prefix.to_vec();
    rec(&mut cur, alpha, depth, f);
}

pub fn contract_configs(thorough: bool) -> Vec<Cfg> {
    let mut v = vec![];
    for (i, &c) in VCODECS.iter().enumerate() {
        for (j, a) in [Some(ACodec::AacLc), Some(ACodec::Opus), None].into_iter().enumerate() {
            let mut cfg = Cfg::basic(c, a, (i + j) % 2 == 0);
            if thorough && j == 0 {
                cfg.meta = Some(oracle::model::Meta { title: Some("t".into()), time: None, lang: None });
            }
            v.push(cfg);
        }
    }
    // a configuration whose finish is refused (dimensions beyond the 16-bit sample-entry fields):
    // the muxer must count as finished after that refusal like after a success
    v.push(Cfg { width: 70_000, ..Cfg::basic(VCodec::H264, Some(ACodec::AacLc), true) });
    // builder reconfigured: an audio selection withdrawn again with AudioCodec::None (audio calls
    // must be refused as not configured), and one replaced by another codec
    v.push(Cfg { audio_first: Some(oracle::model::AudioCfg { codec: ACodec::AacLc, rate: 44100, channels: 2 }), ..Cfg::basic(VCodec::H264, None, false) });
    v.push(Cfg { audio_first: Some(oracle::model::AudioCfg { codec: ACodec::AacLc, rate: 44100, channels: 1 }), ..Cfg::basic(VCodec::H265, Some(ACodec::Opus), true) });
    v
}

/// "video configured at build": build() succeeds iff a video track was configured, whatever
/// else was set, and the error names the missing configuration.
fn builder_cases(t: &mut Tally) {
    use muxide::api::{AudioCodec, Metadata, MuxerBuilder, MuxerError, VideoCodec};
    let mut k = 0u64;
    for video in [None, Some(VideoCodec::H264), Some(VideoCodec::H265), Some(VideoCodec::Av1), Some(VideoCodec::Vp9)] {
        for via_alias in [false, true] {
            for audio in [None, Some(AudioCodec::None), Some(AudioCodec::Opus), Some(AudioCodec::Aac(muxide::api::AacProfile::Lc))] {
                for meta in [false, true] {
                    for fast in [false, true] {
                        k += 1;
                        t.evaluations += 1;
                        let mut b = MuxerBuilder::new(Vec::<u8>::new()).with_fast_start(fast);
                        if let Some(v) = video {
                            b = if via_alias { b.set_video_track(v, 640, 480, 30.0) } else { b.video(v, 640, 480, 30.0) };
                        }
                        if let Some(a) = audio {
                            b = if via_alias { b.set_audio_track(a, 48000, 2) } else { b.audio(a, 48000, 2) };
                        }
                        if meta {
                            b = b.with_metadata(Metadata::new().with_title("t")).set_language("eng").set_create_time(1);
                        }
                        let r = guarded(|| b.build().map(|_| ()));
                        let issue = match (&r, video.is_some()) {
                            (Err(p), _) => Some(("build/panic", p.clone())),
                            (Ok(Ok(())), false) => Some(("build/accepted-without-video", "build() succeeded although no video track was configured".to_string())),
                            (Ok(Err(MuxerError::MissingVideoConfig)), false) => None,
                            (Ok(Err(e)), false) => Some(("build/wrong-error", format!("{e:?}"))),
                            (Ok(Ok(())), true) => None,
                            (Ok(Err(e)), true) => Some(("build/rejected-valid", format!("{e:?}"))),
                        };
                        if let Some((sig, d)) = issue {
                            t.violation(&format!("C04/{sig}"), (9_000_000, k), || format!("video {video:?} audio {audio:?} meta {meta} fast {fast}: {d}"), || json!({"engine": "contract-builder", "video": format!("{video:?}"), "audio": format!("{audio:?}"), "meta": meta, "fast": fast}));
                        }
                    }
                }
            }
        }
    }
    t.count("builder_cases", k);
}

#[derive(Clone, Copy, PartialEq, Eq, Debug)]
pub enum Which {
    C04,
    C05,
    C06,
}

struct Item {
    cfg: Cfg,
    alpha: &'static [Sym],
    depth: usize,
    prefix: Vec<Sym>,
}

fn trace_hash(tr: &Trace) -> u64 {
    let mut h = Fnv::new();
    for r in &tr.results {
        h.str(&r.brief());
    }
    h.bytes(&tr.bytes);
    h.0
}

pub const FINS: &[Sym] = &[Sym::Fin, Sym::FinStats, Sym::FinConsume, Sym::FinConsumeStats, Sym::FlushConsume];

pub const C06_ALPHA: &[Sym] = &[
    Sym::WvKey,
    Sym::WvDelta,
    Sym::WaPlus,
    Sym::FinStats,
    Sym::Fin,
    Sym::WvdPts2,
    Sym::WvdB,
    Sym::WvdBHalf,
    Sym::WaEqual,
    Sym::WvEqual,
    Sym::WaBadSync,
    Sym::WvdHalfGap,
    Sym::WaHalfGap,
    Sym::EvKey,
    Sym::EaOk,
    Sym::FinConsume,
    Sym::FinConsumeStats,
    Sym::FlushConsume,
];

pub fn collect(ctx: &Ctx, which: Which) -> (Tally, Meta) {
    // (alphabet, depth) runs: the full alphabet at depth d, the one-symbol-per-guard alphabet deeper
    let runs: Vec<(&'static [Sym], usize)> = match (which, ctx.thorough) {
        (Which::C06, false) => vec![(C06_ALPHA, 4)],
        (Which::C06, true) => vec![(C06_ALPHA, 6)],
        (_, false) => vec![(FULL, 3), (CORE, 4), (CONV, 5)],
        (_, true) => vec![(FULL, 4), (CORE, 6), (CONV, 7)],
    };
    let cfgs = contract_configs(ctx.thorough);
    let mut items = vec![];
    for cfg in &cfgs {
        for &(alpha, depth) in &runs {
            for d in 1..=depth {
                // all lengths: shorter histories are complete histories too
                if d < 2 {
                    items.push(Item { cfg: cfg.clone(), alpha, depth: d, prefix: vec![] });
                } else {
                    for p in all_seqs(alpha, 2) {
                        items.push(Item { cfg: cfg.clone(), alpha, depth: d, prefix: p });
                    }
                }
            }
        }
    }
    let tally = par_items(&items, ctx.seed, |idx, it, t| {
        let fx = Fixtures::new(&it.cfg);
        let mut k = 0u64;
        extend(&it.prefix, it.alpha, it.depth, &mut |syms: &[Sym]| {
            k += 1;
            explore_one(which, &it.cfg, &fx, syms, (idx as u64, k), t);
        });
    });
    let mut tally = tally;
    if which == Which::C04 {
        builder_cases(&mut tally);
    }
    if which == Which::C06 {
        short_write_sinks(&mut tally);
    }
    if which == Which::C04 {
        adts_sweep(&mut tally);
    }
    let desc = runs.iter().map(|(a, d)| format!("{} symbols to depth {d}", a.len())).collect::<Vec<_>>().join(" + ");
    let (rule, assumptions) = match which {
        Which::C04 => (
            format!("every call history over the relative-symbol alphabet ({desc}; all lengths 1..depth) x {} configurations (4 codecs x {{AAC, Opus, no audio}}), executed on the real muxer with the executable contract model stepped in lock-step: each call must succeed iff the model's set of violated preconditions is empty, and an error must map into that set; plus every ADTS frame length 0..8191 x protection x buffer length {{fl-1, fl, fl+1, fl+9}} through write_audio against the reference ADTS parser. A case is distinct by (result vector, output bytes).", cfgs.len()),
            vec!["the contract model (oracle/src/model.rs) is a transcription of docs/contract.md and the statement of C04; header-only ADTS frames are accepted either way (statement lists both readings)".to_string()],
        ),
        Which::C05 => (
            format!("every history of the C04 space ({desc}) x {} configurations that contains at least one rejected call is executed on the real muxer as is (then finished) and again with each rejected call deleted individually and with all of them deleted at once (then finished); every other call's result (accepted or rejected), the statistics and the output bytes must be identical. Differential: no hand-written expectation.", cfgs.len()),
            vec!["determinism of a single execution is C17's business and is self-checked there".to_string()],
        ),
        Which::C06 => (
            format!("every history over a {}-symbol alphabet containing all five finish entry points ({desc}) x {} configurations, on a recording sink that stamps every write with the API call in progress: no sink write outside the first successful finish, everything after it fails, statistics equal accepted counts / sink bytes / largest presentation end time within one tick; plus 14 representative histories x sinks accepting {{1, 5, 64, 4096}} bytes per write x the five finish entry points (complete file, exact byte count)", C06_ALPHA.len(), cfgs.len()),
            vec!["consuming finish calls are terminal symbols (the object no longer exists afterwards)".to_string()],
        ),
    };
    (tally, Meta { level: "model_checking", rule, bound: desc, exhaustive: true, assumptions, extra: json!({"configurations": cfgs.len()}) })
}

/// "structurally valid ADTS": write_audio's decision for every 13-bit frame length x protection
/// flag x buffer length {fl-1, fl, fl+1, fl+9} must equal the reference parser's (a frame is
/// accepted iff the header is well-formed, the declared length covers the header and the buffer
/// holds the declared length; a header-only frame may go either way, as in the alphabet).
fn adts_sweep(t: &mut Tally) {
    use oracle::refmodel::{adts_parse, Adts};
    let cfg = Cfg::basic(VCodec::H264, Some(ACodec::AacLc), true);
    let key = Bytes::new(frames::video_frame(VCodec::H264, true, true, 1, 4).0);
    let mut k = 0u64;
    for protected in [false, true] {
        for fl in 0..8192usize {
            for bl in [fl.wrapping_sub(1), fl, fl + 1, fl + 9] {
                if bl > 9000 {
                    continue;
                }
                let mut f = AdtsHdr { protection_absent: !protected, frame_length: fl as u16, ..Default::default() }.bytes();
                while f.len() < bl {
                    f.push(0x21 + (f.len() % 0xd0) as u8);
                }
                f.truncate(bl);
                k += 1;
                t.evaluations += 1;
                let ops = vec![Op::WV { pts: T(0.0), data: key.clone(), key: true }, Op::WA { pts: T(0.0), data: Bytes::new(f.clone()) }];
                let ex = crate::run::run(&cfg, &ops);
                let accepted = ex.results.get(1).map(|r| r.is_ok()).unwrap_or(false);
                let (want, either) = match adts_parse(&f) {
                    Adts::Valid { header_len, frame_len } => (true, frame_len == header_len),
                    _ => (false, false),
                };
                t.outcome((accepted as u64) << 20 | (fl as u64) << 2 | protected as u64);
                if accepted != want && !either {
                    let sig = if accepted { "C04/write_audio/adts-sweep/accepted-invalid" } else { "C04/write_audio/adts-sweep/rejected-valid" };
                    t.violation(sig, (9_100_000, k), || format!("ADTS frame with declared length {fl}, protection {protected}, buffer of {bl} bytes: write_audio {} it, the reference parser says {:?}", if accepted { "accepted" } else { "rejected" }, adts_parse(&f)), || json!({"engine": "contract", "cfg": cfg, "ops": ops, "brief": format!("adts fl={fl} bl={bl}")}));
                }
            }
        }
    }
    t.count("adts_sweep_frames", k);
}

/// C06 on sinks that legally accept only part of each buffer: "a successful finish writes the
/// complete file once" and "the exact number of bytes delivered to the sink" must hold for them
/// too. Representative histories x chunk sizes {1, 5, 64, 4096} x the five finish entry points.
fn short_write_sinks(t: &mut Tally) {
    use crate::determinism::ChunkSink;
    use std::sync::{Arc, Mutex};
    let mut k = 0u64;
    for (name, cfg, ops) in crate::faults::histories() {
        let mut full = ops.clone();
        full.push(Op::FinishInPlaceStats);
        let reference = crate::run::run(&cfg, &full);
        let Some(Res::OkStats(want)) = reference.results.last().cloned() else { continue };
        for chunk in [1usize, 5, 64, 4096] {
            for fin in [Op::FinishInPlaceStats, Op::FinishInPlace, Op::Finish, Op::FinishStats, Op::Flush] {
                k += 1;
                t.evaluations += 1;
                let buf = Arc::new(Mutex::new(Vec::new()));
                let mut m = crate::run::builder(&cfg, ChunkSink { buf: buf.clone(), chunk }).build().ok();
                let mut written_before_finish = 0usize;
                let mut results = vec![];
                for o in &ops {
                    results.push(crate::run::apply(&mut m, o));
                    written_before_finish = buf.lock().unwrap().len();
                }
                let r = crate::run::apply(&mut m, &fin);
                drop(m);
                let got = buf.lock().unwrap().clone();
                t.outcome(oracle::report::h64(&got) ^ chunk as u64);
                let case = || json!({"engine": "contract-sinks", "history": name, "cfg": cfg, "ops": ops, "chunk": chunk, "finish": fin});
                let order = (9_000_000, k);
                if written_before_finish != 0 {
                    t.violation("C06/short-write-sink/written-before-finish", order, || format!("{name}: {written_before_finish} bytes reached the sink before finish"), case);
                }
                if !r.is_ok() {
                    t.violation("C06/short-write-sink/finish-failed", order, || format!("{name}: {} on a sink accepting {chunk} bytes per write: {}", fin.brief(), r.brief()), case);
                    continue;
                }
                if got != reference.bytes {
                    t.violation("C06/short-write-sink/incomplete-file", order, || format!("{name}: finish reported success on a sink accepting {chunk} bytes per write, the sink holds {} bytes, the complete file has {}", got.len(), reference.bytes.len()), case);
                }
                if let Res::OkStats(st) = &r {
                    if st.bytes_written != got.len() as u64 || st.video_frames != want.video_frames || st.audio_frames != want.audio_frames {
                        t.violation("C06/short-write-sink/stats", order, || format!("{name}: statistics {st:?}, the sink holds {} bytes, reference statistics {want:?}", got.len()), case);
                    }
                }
            }
        }
    }
    t.count("short_write_sink_runs", k);
}

pub fn check(ctx: &Ctx, which: Which) -> i32 {
    let (tally, meta) = collect(ctx, which);
    finish(ctx, &tally, meta)
}

pub fn explore_one(which: Which, cfg: &Cfg, fx: &Fixtures, syms: &[Sym], order: (u64, u64), t: &mut Tally) {
    // a consuming finish ends the history: skip sequences that continue after one (they are
    // identical to their shorter prefix, already enumerated)
    if let Some(p) = syms.iter().position(|s| matches!(s, Sym::FinConsume | Sym::FinConsumeStats | Sym::FlushConsume)) {
        if p + 1 != syms.len() {
            return;
        }
    }
    let then_finish = which != Which::C04 && !syms.last().map(|s| FINS.contains(s)).unwrap_or(false);
    let tr = run_syms(cfg, fx, syms, then_finish);
    t.evaluations += 1;
    t.states += 1;
    t.transitions += tr.ops.len() as u64;
    t.traces += 1;
    t.outcome(trace_hash(&tr));
    let rejected = tr.results.iter().filter(|r| matches!(r, Res::Err(..))).count() as u64;
    t.count("rejected_calls", rejected);
    t.count("accepted_calls", tr.results.iter().filter(|r| r.is_ok()).count() as u64);
    let issues = match which {
        Which::C04 => c04_issues(&tr),
        Which::C05 => {
            let (i, runs) = c05_issues(cfg, &tr);
            t.evaluations += runs;
            t.transitions += runs * tr.ops.len() as u64;
            t.count("differential_runs", runs);
            i
        }
        Which::C06 => c06_issues(cfg, &tr),
    };
    t.sample(3, || json!({"cfg": cfg.short(), "symbols": format!("{syms:?}"), "history": brief_ops(&tr.ops), "results": tr.results.iter().map(|r| r.brief()).collect::<Vec<_>>(), "model_verdicts": tr.verdicts.iter().map(|v| format!("{:?}", v.viol)).collect::<Vec<_>>()}));
    for (sig, detail) in issues {
        let full = format!("{which:?}/{sig}");
        t.violation(&full, order, || format!("{} | {} | {}", cfg.short(), brief_ops(&tr.ops), detail), || case(cfg, &tr, Some(syms)));
    }
}

pub fn replay(prop: &str, case: &Value) -> i32 {
    let cfg: Cfg = serde_json::from_value(case["cfg"].clone()).expect("cfg");
    let ops: Vec<Op> = serde_json::from_value(case["ops"].clone()).expect("ops");
    println!("configuration: {cfg:?}");
    let tr = run_ops(&cfg, &ops);
    for ((o, r), v) in tr.ops.iter().zip(&tr.results).zip(&tr.verdicts) {
        println!("  {} -> {}   [model: violated {:?}{}]", o.brief(), match r { Res::Err(_, d) => format!("{} {}", r.brief(), d), _ => r.brief() }, v.viol, if v.either { " (either outcome accepted)" } else { "" });
    }
    let issues = match prop {
        "C04" => c04_issues(&tr),
        "C05" => c05_issues(&cfg, &tr).0,
        "C06" => c06_issues(&cfg, &tr),
        _ => return 2,
    };
    if issues.is_empty() {
        println!("replay: property {prop} holds for this case");
        0
    } else {
        for (s, d) in issues {
            println!("replay: VIOLATION {prop}/{s}: {d}");
        }
        1
    }
}
