//! Drivers: everything that calls the real muxide code.
pub mod e1;
pub mod run;

use oracle::report::Ctx;

pub fn dispatch(ctx: &Ctx) -> i32 {
    match ctx.property.as_str() {
        "C01" => e1::check_file_prop(ctx, e1::FileProp::C01),
        "C15" => e1::check_c15(ctx),
        "C08" => e1::check_c08(ctx),
        "C02" => {
            let (mut t, mut m) = e1::collect_file_prop(ctx, e1::FileProp::C02);
            t.merge(e1::scaling_part(ctx, e1::FileProp::C02));
            t.merge(faults::retry_part(ctx, "C02"));
            t.merge(e1::audio_none_part());
            m.rule = format!("{} Plus the scaling family of C01 (long tables, large samples, look-alike values) and, on a scripted sink, every representative history x failure at every write call x every error kind x three finish attempts: whenever a finish reports success the sink must hold one well-formed file. Builder paths with audio codec None (alone, or after a real codec; both setters) x 4 codecs x both layouts x {{0, 2}} frames: one video track only.", m.rule);
            combine(ctx, (t, m), frag::collect(ctx, "C02"))
        }
        "C03" => timing::check_c03(ctx),
        "C04" => contract::check(ctx, contract::Which::C04),
        "C05" => combine(ctx, contract::collect(ctx, contract::Which::C05), frag::collect(ctx, "C05")),
        "C10" => frag::check(ctx, "C10"),
        "C13" => faults::check(ctx),
        "C14" => reframe::check(ctx),
        "C07" => codeccfg::check(ctx),
        "C12" => nopanic::check(ctx),
        "C16" => widths::check(ctx),
        "C18" => meta::check(ctx),
        "C19" => specs::check(ctx),
        "C09" => avsync::check(ctx),
        "C17" => determinism::check(ctx),
        "C20" => cli::check(ctx),
        "C11" => frag::check(ctx, "C11"),
        "C06" => contract::check(ctx, contract::Which::C06),
        p => {
            eprintln!("no check for {p}");
            2
        }
    }
}

pub fn replay(prop: &str, case: &serde_json::Value) -> i32 {
    if prop == "C09" {
        return avsync::replay(case);
    }
    if prop == "C17" {
        return determinism::replay(case);
    }
    if prop == "C20" {
        return cli::replay(case);
    }
    match case["engine"].as_str() {
        Some("E1") => e1::replay(prop, case),
        Some("contract") => contract::replay(prop, case),
        Some("E5") => frag::replay(prop, case),
        Some("E3") | Some("E3-c02") => faults::replay(case),
        Some(e) if e.starts_with("E2-c07") => codeccfg::replay(case),
        Some(e) if e.starts_with("E2-c12") => nopanic::replay(case),
        Some(e) if e.starts_with("E2-c16") => widths::replay(case),
        Some("E2-c18") => meta::replay(case),
        Some(e) if e.starts_with("E2-c19") => specs::replay(case),
        Some("E2-annexb") | Some("E2-annexb-mux") | Some("E2-adts") => reframe::replay(case),
        e => {
            eprintln!("unknown engine {e:?}");
            2
        }
    }
}
pub mod timing;
pub mod contract;
pub mod frag;
pub mod faults;
pub mod reframe;
pub mod codeccfg;
pub mod nopanic;
pub mod widths;
pub mod meta;
pub mod specs;
pub mod avsync;
pub mod determinism;
pub mod cli;

use oracle::report::{Meta, Tally};

/// Two engines serving one property: tallies are merged, the rules concatenated.
fn combine(ctx: &Ctx, a: (Tally, Meta), b: (Tally, Meta)) -> i32 {
    let (mut t, mut m) = a;
    t.merge(b.0);
    m.rule = format!("(1) {} (2) {}", m.rule, b.1.rule);
    m.bound = format!("(1) {} (2) {}", m.bound, b.1.bound);
    m.assumptions.extend(b.1.assumptions);
    m.assumptions.sort();
    m.assumptions.dedup();
    m.exhaustive = m.exhaustive && b.1.exhaustive;
    oracle::report::finish(ctx, &t, m)
}
