//! Drivers: everything that calls the real muxide code.
pub mod e1;
pub mod run;

use oracle::report::Ctx;

pub fn dispatch(ctx: &Ctx) -> i32 {
    match ctx.property.as_str() {
        "C01" => e1::check_file_prop(ctx, e1::FileProp::C01),
        "C15" => e1::check_file_prop(ctx, e1::FileProp::C15),
        "C08" => e1::check_c08(ctx),
        "C02" => e1::check_file_prop(ctx, e1::FileProp::C02),
        "C03" => timing::check_c03(ctx),
        "C04" => contract::check(ctx, contract::Which::C04),
        "C05" => contract::check(ctx, contract::Which::C05),
        "C06" => contract::check(ctx, contract::Which::C06),
        p => {
            eprintln!("no check for {p}");
            2
        }
    }
}

pub fn replay(prop: &str, case: &serde_json::Value) -> i32 {
    match case["engine"].as_str() {
        Some("E1") => e1::replay(prop, case),
        Some("contract") => contract::replay(prop, case),
        e => {
            eprintln!("unknown engine {e:?}");
            2
        }
    }
}
pub mod timing;
pub mod contract;
