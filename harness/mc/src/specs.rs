//! C19 - header boxes and configuration records follow their specifications' layouts.
//! The strict reader records every departure as a `Spec` problem with a stable signature; this
//! driver enumerates the configuration space and adds the value-recovery checks (dimensions,
//! timescales, handler types, track IDs).

use crate::frag::{self, FCfg};
use crate::run::run_finished;
use oracle::frames::{audio_frame, video_frame, ACodec, VCodec, AAC_RATES};
use oracle::hist;
use oracle::model::{hex, AudioCfg, Bytes, Cfg, Op, T};
use oracle::reader::{parse_movie, parse_segment, Class, Movie};
use oracle::report::{finish, guarded, par_items, Ctx, Fnv, Meta, Tally};
use serde_json::{json, Value};

type Issues = Vec<(String, String)>;

fn value_checks(m: &Movie, kind: &str, width: u32, height: u32, movie_ts: u32, media_ts: u32) -> Issues {
    let mut out = vec![];
    match &m.mvhd {
        Some(mv) => {
            if mv.timescale != movie_ts {
                out.push((format!("{kind}/mvhd/timescale={}", mv.timescale), format!("movie timescale {} instead of {movie_ts}", mv.timescale)));
            }
        }
        None => out.push((format!("{kind}/mvhd/missing"), String::new())),
    }
    for t in &m.tracks {
        let tag = match &t.handler {
            b"vide" => "v",
            b"soun" => "a",
            _ => "?",
        };
        if t.mdhd.timescale != media_ts {
            out.push((format!("{kind}/mdhd[{tag}]/timescale={}", t.mdhd.timescale), format!("media timescale {} instead of {media_ts}", t.mdhd.timescale)));
        }
        if tag == "v" {
            let (w, h) = ((width as u64) << 16, (height as u64) << 16);
            if (t.tkhd.width_fixed as u64, t.tkhd.height_fixed as u64) != (w, h) {
                out.push((format!("{kind}/tkhd[v]/dimensions"), format!("a reader following the specification's layout finds width {:#x} height {:#x} (16.16), configured {width}x{height}", t.tkhd.width_fixed, t.tkhd.height_fixed)));
            }
            if t.tkhd.volume != 0 {
                out.push((format!("{kind}/tkhd[v]/volume"), format!("video track volume {:#x}", t.tkhd.volume)));
            }
            if let Some(e) = &t.entry {
                if (e.width as u32, e.height as u32) != (width, height) {
                    out.push((format!("{kind}/stsd[v]/dimensions"), format!("{}x{} vs {width}x{height}", e.width, e.height)));
                }
            }
            if &t.media_header != b"vmhd" {
                out.push((format!("{kind}/minf[v]/media-header"), "video track without vmhd".into()));
            }
            if let Some(e) = &t.entry {
                if e.data_ref_index != 1 {
                    out.push((format!("{kind}/stsd[v]/data-reference-index={}", e.data_ref_index), String::new()));
                }
            }
        } else if tag == "a" {
            if (t.tkhd.width_fixed, t.tkhd.height_fixed) != (0, 0) {
                out.push((format!("{kind}/tkhd[a]/dimensions"), format!("audio track header width/height {:#x}/{:#x}", t.tkhd.width_fixed, t.tkhd.height_fixed)));
            }
            if t.tkhd.volume != 0x0100 {
                out.push((format!("{kind}/tkhd[a]/volume={:#06x}", t.tkhd.volume), "audio track volume must be 1.0 (0x0100)".into()));
            }
            if &t.media_header != b"smhd" {
                out.push((format!("{kind}/minf[a]/media-header"), "audio track without smhd".into()));
            }
            if let Some(e) = &t.entry {
                // fixed template fields of AudioSampleEntry (ISO 14496-12 12.2.3) and the Opus
                // binding (Opus in ISOBMFF 4.3.1: samplerate shall be 48000 << 16)
                if e.sample_size != 16 {
                    out.push((format!("{kind}/stsd[a]/samplesize={}", e.sample_size), "AudioSampleEntry samplesize template value is 16".into()));
                }
                if &e.format == b"Opus" && e.rate_fixed != 48000u32 << 16 {
                    out.push((format!("{kind}/stsd[a]/opus-samplerate"), format!("Opus sample entry samplerate {:#x}; the binding requires 48000<<16", e.rate_fixed)));
                }
                if e.data_ref_index != 1 {
                    out.push((format!("{kind}/stsd[a]/data-reference-index={}", e.data_ref_index), String::new()));
                }
            }
        } else {
            out.push((format!("{kind}/hdlr/handler-type"), format!("{:?}", oracle::reader::fcc(&t.handler))));
        }
    }
    if let Some((major, _, compat)) = &m.ftyp {
        if !compat.contains(major) && !compat.is_empty() {
            // ISO 14496-12: the major brand should appear among the compatible brands
            out.push((format!("{kind}/ftyp/major-not-in-compatible"), format!("major {:?} compat {:?}", oracle::reader::fcc(major), compat.iter().map(oracle::reader::fcc).collect::<Vec<_>>())));
        }
    } else {
        out.push((format!("{kind}/ftyp/missing-or-malformed"), String::new()));
    }
    out
}

fn judge_prog(cfg: &Cfg, nframes: usize, order: (u64, u64), t: &mut Tally) {
    let mut ops = vec![];
    for i in 0..nframes {
        let (d, _) = video_frame(cfg.codec, i == 0, i == 0, i as u32 + 1, 5 + i);
        ops.push(Op::WV { pts: T(i as f64 / 30.0), data: Bytes::new(d), key: i == 0 });
        if let Some(a) = &cfg.audio {
            ops.push(Op::WA { pts: T(i as f64 / 30.0), data: Bytes::new(audio_frame(a.codec, i as u32, 5).0) });
        }
    }
    let ex = run_finished(cfg, &ops);
    t.evaluations += 1;
    let case = || json!({"engine": "E2-c19-prog", "cfg": cfg, "frames": nframes});
    if let Some((i, m)) = ex.panicked() {
        t.violation("C19/prog/panic", order, || format!("{}: call {i} panicked: {m}", cfg.short()), case);
        return;
    }
    if !ex.results.iter().all(|r| r.is_ok()) {
        t.count("runs_with_rejections", 1);
        return;
    }
    let m = parse_movie(&ex.bytes, "prog");
    let mut h = Fnv::new();
    if let Some(mv) = &m.moov {
        h.bytes(&oracle::reader::reduced_moov(&ex.bytes, &m, false));
        let _ = mv;
    }
    t.outcome(h.0);
    let mut issues: Issues = m.probs.of(&[Class::Spec]).into_iter().map(|p| (p.sig.clone(), p.detail.clone())).collect();
    issues.extend(value_checks(&m, "prog", cfg.width, cfg.height, 1000, 90000));
    t.sample(2, || json!({"cfg": cfg.short(), "dims": [cfg.width, cfg.height], "frames": nframes, "spec_problems": issues.iter().map(|i| i.0.clone()).collect::<Vec<_>>()}));
    for (s, d) in issues {
        t.violation(&format!("C19/{s}"), order, || format!("{} {}x{} audio {:?}: {d}", cfg.short(), cfg.width, cfg.height, cfg.audio), case);
    }
}

fn judge_frag(fc: &FCfg, order: (u64, u64), t: &mut Tally) {
    t.evaluations += 1;
    let case = || json!({"engine": "E2-c19-frag", "cfg": fc});
    let r = guarded(|| {
        frag::make(fc).map(|mut m| {
            let init = m.init_segment();
            let mut segs = vec![];
            let _ = m.write_video(fc.start_dts, fc.start_dts, &[1, 2, 3, 4, 5], true);
            if let Some(s) = m.flush_segment() {
                segs.push(s);
            }
            let _ = m.write_video(fc.start_dts + 6000, fc.start_dts + 3000, &[6, 7], false);
            let _ = m.write_video(fc.start_dts + 3000, fc.start_dts + 6000, &[8, 9, 10], false);
            if let Some(s) = m.flush_segment() {
                segs.push(s);
            }
            // a second object with the same history whose init segment is first requested after
            // the flushes: it is a header like the other and decoded the same way
            let late = frag::make(fc).ok().map(|mut m2| {
                let _ = m2.write_video(fc.start_dts, fc.start_dts, &[1, 2, 3, 4, 5], true);
                let _ = m2.flush_segment();
                let _ = m2.write_video(fc.start_dts + 6000, fc.start_dts + 3000, &[6, 7], false);
                let _ = m2.flush_segment();
                m2.init_segment()
            });
            (init, segs, late)
        })
    });
    match r {
        Err(p) => t.violation("C19/init/panic", order, || format!("{fc:?}: {p}"), case),
        Ok(Err(_)) => t.count("builder_rejected", 1),
        Ok(Ok((init, segs, late))) => {
            let m = parse_movie(&init, "init");
            t.outcome(oracle::report::h64(&init));
            let mut issues: Issues = m.probs.of(&[Class::Spec]).into_iter().map(|p| (p.sig.clone(), p.detail.clone())).collect();
            if let Some(late) = &late {
                let ml = parse_movie(late, "init");
                // (same signatures as for the early request: what is wrong with a header does not
                // depend on when it was asked for; the detail says which request it was)
                issues.extend(ml.probs.of(&[Class::Spec]).into_iter().map(|p| (p.sig.clone(), format!("init segment first requested after two flushes: {}", p.detail))));
                issues.extend(value_checks(&ml, "init", fc.width, fc.height, fc.timescale, fc.timescale).into_iter().map(|(s, d)| (s, format!("init segment first requested after two flushes: {d}"))));
            }
            // for init segments the movie header carries the fragment timescale (1000 is not demanded)
            issues.extend(value_checks(&m, "init", fc.width, fc.height, fc.timescale, fc.timescale));
            for tx in &m.trex {
                if tx.default_desc_index != 1 {
                    issues.push(("init/trex/default_sample_description_index".into(), format!("{}", tx.default_desc_index)));
                }
            }
            for (si, s) in segs.iter().enumerate() {
                let sg = parse_segment(s);
                // the second segment holds a sample presented before it is decoded: a signed
                // composition offset needs version 1 of the run box (ISO/IEC 14496-12 8.8.8)
                if si == 1 && sg.trun_version != 1 {
                    issues.push(("seg/trun/version".into(), format!("trun version {} although a composition offset is negative", sg.trun_version)));
                }
                issues.extend(sg.probs.of(&[Class::Spec]).into_iter().map(|p| (p.sig.clone(), p.detail.clone())));
                if sg.track_id != m.tracks.first().map(|t| t.tkhd.track_id).unwrap_or(1) {
                    issues.push(("seg/tfhd/track-id".into(), format!("tfhd track {} not in the init segment", sg.track_id)));
                }
                if sg.tfhd_flags & 0x020000 == 0 && sg.tfhd_flags & 1 == 0 {
                    // without default-base-is-moof or an explicit base offset the data offset would
                    // be relative to the previous fragment's end
                    issues.push(("seg/tfhd/base".into(), format!("flags {:#x}", sg.tfhd_flags)));
                }
            }
            for (s, d) in issues {
                t.violation(&format!("C19/{s}"), order, || format!("{fc:?}: {d}"), case);
            }
        }
    }
}

/// av1C bit positions: files whose sequence headers exercise every field of byte 1 and byte 2
/// (profile, level, tier, bit depths, monochrome, both subsampling bits, sample position).
fn judge_av1c_bits(order: (u64, u64), t: &mut Tally) {
    use oracle::frames::{av1_seq_obu, obu, SeqHdr};
    let base = SeqHdr::default();
    let headers = vec![
        SeqHdr { profile: 0, level: 8, tier: true, csp: 2, ..base.clone() }.normalised(),
        SeqHdr { profile: 1, level: 31, tier: false, high_bitdepth: true, ..base.clone() }.normalised(),
        SeqHdr { profile: 2, level: 5, high_bitdepth: true, ..base.clone() }.normalised(), // 4:2:2 10-bit
        SeqHdr { profile: 2, level: 12, tier: true, high_bitdepth: true, twelve_bit: true, subx: true, suby: false, ..base.clone() }.normalised(),
        SeqHdr { profile: 2, level: 13, high_bitdepth: true, twelve_bit: true, subx: false, suby: false, ..base.clone() }.normalised(),
        SeqHdr { profile: 2, level: 9, high_bitdepth: true, twelve_bit: true, subx: true, suby: true, csp: 1, ..base.clone() }.normalised(),
        SeqHdr { profile: 0, level: 0, color_desc: 1, ..base.clone() }.normalised(), // sRGB: 4:4:4
        // scalable streams: av1C describes operating point 0, whatever the later points say
        // (the writer gives later points another level and the opposite tier)
        SeqHdr { level: 12, tier: true, op_count: 2, ..base.clone() }.normalised(),
        SeqHdr { level: 9, tier: false, op_count: 3, ..base.clone() }.normalised(),
        SeqHdr { level: 5, op_count: 2, ..base.clone() }.normalised(),
        SeqHdr { level: 13, tier: true, op_count: 4, timing: true, decoder_model: true, op_decoder_model: true, ..base.clone() }.normalised(),
    ];
    for (k, h) in headers.iter().enumerate() {
        // OBU framings of the same header: plain; with an extension byte; its size as a (legal)
        // two-byte LEB128; its payload padded with zero bytes to 130 bytes (two-byte size)
        for (fast, framing) in [(true, 0u8), (false, 0), (true, 1), (false, 2), (true, 3), (false, 3)] {
            t.evaluations += 1;
            let p = h.payload();
            let seq = match framing {
                0 => av1_seq_obu(h),
                1 => obu(1, true, true, &p),
                2 => [vec![(1 << 3) | 2, (p.len() as u8 & 0x7f) | 0x80, 0x00], p.clone()].concat(),
                _ => {
                    let mut q = p.clone();
                    q.resize(130, 0);
                    obu(1, false, true, &q)
                }
            };
            let frame = [obu(2, false, true, &[]), seq.clone(), obu(6, false, true, &[0x10, 0x44])].concat();
            let cfg = Cfg::basic(VCodec::Av1, None, fast);
            let ex = run_finished(&cfg, &[Op::WV { pts: T(0.0), data: Bytes::new(frame), key: true }]);
            if ex.panicked().is_some() || !ex.results.iter().all(|r| r.is_ok()) {
                t.count("av1c_bit_cases_rejected", 1);
                continue;
            }
            let m = parse_movie(&ex.bytes, "prog");
            let e = h.expect();
            let want1 = (e.profile << 5) | (e.level & 0x1f);
            let want2 = (e.tier << 7) | ((e.high_bitdepth as u8) << 6) | ((e.twelve_bit as u8) << 5) | ((e.mono as u8) << 4) | ((e.subx as u8) << 3) | ((e.suby as u8) << 2) | (e.csp & 3);
            if let Some(oracle::reader::CodecCfg::Av1 { seq_profile, seq_level_idx, seq_tier, high_bitdepth, twelve_bit, monochrome, subx, suby, csp, .. }) = m.video().and_then(|t| t.entry.as_ref()).map(|e| e.cfg.clone()) {
                let got1 = (seq_profile << 5) | (seq_level_idx & 0x1f);
                let got2 = (seq_tier << 7) | ((high_bitdepth as u8) << 6) | ((twelve_bit as u8) << 5) | ((monochrome as u8) << 4) | ((subx as u8) << 3) | ((suby as u8) << 2) | (csp & 3);
                if (got1, got2) != (want1, want2) {
                    t.violation("C19/prog/av1C/field-positions", (order.0, order.1 + k as u64), || format!("header {h:?}: av1C bytes 1-2 are {got1:#04x} {got2:#04x}, the binding prescribes {want1:#04x} {want2:#04x} (profile<<5|level, tier|hbd|12bit|mono|subx|suby|csp)"), || json!({"engine": "E2-c19-av1c", "header": format!("{h:?}")}));
                }
            } else {
                t.violation("C19/prog/av1C/missing", (order.0, order.1 + k as u64), || format!("header {h:?}: no av1C record"), || json!({"engine": "E2-c19-av1c"}));
            }
        }
    }
}

fn judge_ps_frame(cfg: &Cfg, frame: &[u8], what: &str, order: (u64, u64), t: &mut Tally) {
    t.evaluations += 1;
    let case = || json!({"engine": "E2-c19-ps", "cfg": cfg, "frame": hex(frame), "what": what});
    let ex = run_finished(cfg, &[Op::WV { pts: T(0.0), data: Bytes::new(frame.to_vec()), key: true }]);
    if let Some((i, m)) = ex.panicked() {
        t.violation("C19/prog/panic", order, || format!("{what}: call {i} panicked: {m}"), case);
        return;
    }
    if !ex.results.iter().all(|r| r.is_ok()) {
        t.count("ps_header_cases_rejected", 1);
        return;
    }
    t.count("ps_header_cases_accepted", 1);
    let m = parse_movie(&ex.bytes, "prog");
    let mut issues: Issues = m.probs.of(&[Class::Spec]).into_iter().map(|p| (p.sig.clone(), p.detail.clone())).collect();
    issues.extend(value_checks(&m, "prog", cfg.width, cfg.height, 1000, 90000));
    // avcC: AVCProfileIndication, profile_compatibility and AVCLevelIndication are bytes 1-3 of
    // the SPS the record carries (ISO/IEC 14496-15 5.3.3.1.2)
    if let Some(oracle::reader::CodecCfg::Avc { profile, compat, level, sps, .. }) = m.video().and_then(|t| t.entry.as_ref()).map(|e| e.cfg.clone()) {
        if let Some(s0) = sps.first() {
            if s0.len() >= 4 && (profile, compat, level) != (s0[1], s0[2], s0[3]) {
                issues.push(("prog/avcC/profile-level-fields".into(), format!("record says {profile:#04x}/{compat:#04x}/{level:#04x}, its SPS starts {:02x?}", &s0[..4])));
            }
        }
    }
    for (s, d) in issues {
        t.violation(&format!("C19/{s}"), order, || format!("{what} (fast start {}): {d}", cfg.fast_start), case);
    }
}

/// Parameter-set unit headers with every header bit a stream may carry (H.264: nal_ref_idc 0-3
/// and the forbidden bit; H.265: forbidden bit, layer-id bits, temporal id): the record headers
/// built around the sets (array headers, counts, lengths, reserved bits) must not depend on them.
fn judge_ps_headers(order: (u64, u64), t: &mut Tally) {
    use oracle::frames::{annexb_mode, h264_pps, h264_sps, h265_pps, h265_sps, h265_vps};
    let mut k = 0u64;
    let mut run = |codec: VCodec, units: Vec<Vec<u8>>, what: String, t: &mut Tally| {
        for fast in [true, false] {
            k += 1;
            let cfg = Cfg::basic(codec, None, fast);
            judge_ps_frame(&cfg, &annexb_mode(&units, k as u32), &what, (order.0, order.1 + k), t);
        }
    };
    for sps_h in [0x67u8, 0x47, 0x27, 0x07, 0xe7] {
        for pps_h in [0x68u8, 0x28, 0x08, 0xe8] {
            let (mut sps, mut pps) = (h264_sps(0), h264_pps(0));
            sps[0] = sps_h;
            pps[0] = pps_h;
            run(VCodec::H264, vec![sps, pps, vec![0x65, 0x88, 0x84]], format!("H.264 SPS header {sps_h:#04x} PPS header {pps_h:#04x}"), t);
        }
    }
    // SPS of 1..=6 bytes with a profile / compatibility / level triple other than the usual
    // defaults: the three bytes of the record mirror SPS bytes 1-3 whenever the SPS has them
    for len in 1..=6usize {
        let sps: Vec<u8> = [0x67u8, 0x64, 0x0c, 0x28, 0xac, 0x2b][..len].to_vec();
        run(VCodec::H264, vec![sps, h264_pps(0), vec![0x65, 0x88, 0x84]], format!("H.264 SPS of {len} bytes (High profile, level 4.0)"), t);
    }
    // (first byte OR-mask, second byte): forbidden bit, nuh_layer_id high bit, layer id low bits, temporal id
    let variants: [(u8, u8); 6] = [(0x00, 0x01), (0x80, 0x01), (0x01, 0x01), (0x00, 0x09), (0x00, 0x02), (0x81, 0xff)];
    for (vi, v) in variants.iter().enumerate() {
        for (si, sv) in variants.iter().enumerate() {
            for (pi, pv) in variants.iter().enumerate() {
                // the full product of the first four variants, the rest only on the diagonal
                if (vi > 3 || si > 3 || pi > 3) && !(vi == si && si == pi) {
                    continue;
                }
                let (mut vps, mut sps, mut pps) = (h265_vps(0), h265_sps(0), h265_pps(0));
                for (u, x) in [(&mut vps, v), (&mut sps, sv), (&mut pps, pv)] {
                    u[0] |= x.0;
                    u[1] = x.1;
                }
                run(VCodec::H265, vec![vps, sps, pps, vec![0x26, 0x01, 0xaf, 0x08]], format!("H.265 VPS/SPS/PPS header variants {vi}/{si}/{pi}"), t);
            }
        }
    }
}

enum Item {
    Prog(Vec<(Cfg, usize)>),
    Frag(Vec<FCfg>),
}

pub fn check(ctx: &Ctx) -> i32 {
    let mut progs: Vec<(Cfg, usize)> = vec![];
    let dims = [(320u32, 240u32), (1920, 1080), (4096, 2160), (65535, 65535)];
    // all of Γ x dimensions x {0, 1, 3} frames
    for cfg in hist::configs(true) {
        for (i, &(w, h)) in dims.iter().enumerate() {
            for nf in [0usize, 1, 3] {
                if !ctx.thorough && (i + nf) % 2 == 1 && cfg.meta.is_some() {
                    continue;
                }
                let mut c = cfg.clone();
                c.width = w;
                c.height = h;
                progs.push((c, nf));
            }
        }
    }
    // channels x rates for every audio kind; Opus additionally with channel counts beyond the
    // eight of mapping family 1 (the dOps record must still match its own family byte)
    for &ac in &oracle::frames::ACODECS {
        let chans: Vec<u16> = if ac.is_aac() { (1..=8).collect() } else { (1..=8).chain([9, 16, 255]).collect() };
        for ch in chans {
            for &r in AAC_RATES.iter() {
                if r >= 65536 {
                    continue; // the 16.16 rate field cannot hold these: C16's finding
                }
                let mut c = Cfg::basic(VCodec::H264, Some(ac), ch % 2 == 0);
                c.audio = Some(AudioCfg { codec: ac, rate: r, channels: ch });
                progs.push((c, 1));
            }
        }
    }
    // creation times on either side of every width a header could store them in: 31 / 32 bits of
    // Unix seconds, 32 bits of seconds since 1904 (2^32 - 2 082 844 800), and far beyond - a
    // header box that switches version with a metadata value must still follow that version's layout
    let times: [u64; 14] = [0, 1, (1 << 31) - 1, 1 << 31, 2_212_122_495, 2_212_122_496, 2_212_122_497, (1 << 32) - 1, 1 << 32, (1 << 32) + 2_082_844_800, 1 << 33, 253_402_300_799, 1 << 40, 1 << 62];
    for (ti, &tm) in times.iter().enumerate() {
        for (ci, &codec) in oracle::frames::VCODECS.iter().enumerate() {
            for (ai, ac) in [None, Some(ACodec::AacLc), Some(ACodec::Opus)].into_iter().enumerate() {
                for fs in [true, false] {
                    let mut c = Cfg::basic(codec, ac, fs);
                    let title = if (ti + ci) % 2 == 0 { Some("t".to_string()) } else { None };
                    let lang = if (ti + ai) % 3 == 0 { Some("deu".to_string()) } else { None };
                    c.meta = Some(oracle::model::Meta { title, time: Some(tm), lang });
                    progs.push((c, 1 + (ti + ci + ai) % 3));
                }
            }
        }
    }
    let mut frags = vec![];
    for &codec in &oracle::frames::VCODECS {
        for via in [true, false] {
            for &(w, h) in &dims {
                for ts in [90000u32, 1000, 48000] {
                    if via && ts != 90000 {
                        continue;
                    }
                    for start in [0u64, 9000] {
                        frags.push(FCfg { codec, via_builder: via, timescale: ts, fragment_ms: 2000, start_dts: start, width: w, height: h, ps_len: 10 });
                    }
                    // empty and one-byte parameter sets: the records' counts and lengths must
                    // still describe exactly what follows
                    for ps in [0usize, 1] {
                        frags.push(FCfg { codec, via_builder: via, timescale: ts, fragment_ms: 2000, start_dts: 0, width: w, height: h, ps_len: ps });
                    }
                }
            }
        }
    }
    let (np, nf) = (progs.len(), frags.len());
    let mut items: Vec<Item> = progs.chunks(64).map(|c| Item::Prog(c.to_vec())).collect();
    items.extend(frags.chunks(16).map(|c| Item::Frag(c.to_vec())));
    let tally = par_items(&items, ctx.seed, |idx, it, t| match it {
        Item::Prog(v) => {
            for (k, (c, nf)) in v.iter().enumerate() {
                judge_prog(c, *nf, (idx as u64, k as u64), t);
            }
        }
        Item::Frag(v) => {
            for (k, c) in v.iter().enumerate() {
                judge_frag(c, (idx as u64, k as u64), t);
            }
        }
    });
    let mut tally = tally;
    judge_av1c_bits((9_000_000, 0), &mut tally);
    judge_ps_headers((9_100_000, 0), &mut tally);
    finish(
        ctx,
        &tally,
        Meta {
            level: "exploration",
            rule: format!("{np} progressive files: the configuration space (4 codecs x {{none, 6 AAC profiles, Opus}} x fast start on/off x 5 metadata shapes) x dimensions {{320x240, 1920x1080, 4096x2160, 65535x65535}} x {{0, 1, 3}} frames{}, plus channels 1-8 (Opus also 9, 16, 255) x the standard sample rates below 65536 Hz for every audio kind; {nf} fragmented configurations (4 codecs x builder/FragmentConfig x dimensions x timescales x start DTS) with their init segment and two media segments. Every fixed-layout header box and configuration record is decoded field by field from ISO/IEC 14496-12/-14/-15 and the AV1 / VP9 / Opus bindings (size, version, flags, reserved bits) av1C bit positions are checked with eleven sequence headers that set every field of its two packed bytes differently, each in four OBU framings (plain, extension byte, two-byte LEB128 size, payload padded to 130 bytes) (four with 2-4 operating points whose later points carry another level and the opposite tier); and the configured dimensions, timescales, enabled flags, identity matrices, handler types and track IDs are recovered. H.264 / H.265 first keyframes whose parameter-set units carry every header-bit variant (nal_ref_idc 0-3, forbidden bit, H.265 layer-id and temporal-id bits; 20 + 67 combinations, and H.264 SPS of 1..6 bytes, x both layouts) are muxed and their avcC / hvcC records decoded the same way. Distinct by the reader-reduced moov.", if ctx.thorough { "" } else { " (metadata variants thinned in the quick tier)" }),
            bound: "configuration space as listed; 0/1/3 frames".into(),
            exhaustive: true,
            assumptions: vec!["the reader's field decoders are written from the specifications and are the trusted base".into(), "the optional High-profile extension of avcC is not demanded".into(), "for init segments the movie timescale is compared with the fragment timescale".into()],
            extra: json!({}),
        },
    )
}

pub fn replay(case: &Value) -> i32 {
    let mut t = Tally::default();
    match case["engine"].as_str() {
        Some("E2-c19-prog") => {
            let cfg: Cfg = serde_json::from_value(case["cfg"].clone()).unwrap();
            judge_prog(&cfg, case["frames"].as_u64().unwrap_or(0) as usize, (0, 0), &mut t);
        }
        Some("E2-c19-frag") => {
            let fc: FCfg = serde_json::from_value(case["cfg"].clone()).unwrap();
            judge_frag(&fc, (0, 0), &mut t);
        }
        Some("E2-c19-ps") => {
            let cfg: Cfg = serde_json::from_value(case["cfg"].clone()).unwrap();
            let frame = oracle::model::unhex(case["frame"].as_str().unwrap_or("")).unwrap_or_default();
            judge_ps_frame(&cfg, &frame, case["what"].as_str().unwrap_or(""), (0, 0), &mut t);
        }
        _ => return 2,
    }
    if t.viol.is_empty() {
        println!("replay: property C19 holds for this case");
        0
    } else {
        for (s, f) in &t.viol {
            println!("replay: VIOLATION {s}: {}", f.detail);
        }
        1
    }
}

#[allow(dead_code)]
fn unused(_: ACodec) {}
