//! C20 - the CLI writes what the library writes and fails loudly otherwise (E6).

use muxide::api::{AudioCodec, Metadata, MuxerBuilder, VideoCodec};
use oracle::frames::{audio_frame, video_frame, ACodec, VCodec};
use oracle::model::hex;
use oracle::reader::{children, Probs};
use oracle::report::{finish, par_items, root, Ctx, Fnv, Meta, Tally};
use serde_json::{json, Value};
use std::path::{Path, PathBuf};
use std::process::{Command, Stdio};
use std::time::{Duration, Instant};

fn bin() -> PathBuf {
    PathBuf::from(std::env::var("VERIF_CLI").unwrap_or_else(|_| format!("{}/target/cli/release/muxide", root())))
}

struct Out {
    code: Option<i32>,
    stdout: String,
    stderr: String,
    timed_out: bool,
}

fn spawn(args: &[String], limit: Duration) -> Result<Out, String> {
    let mut c = Command::new(bin()).args(args).stdin(Stdio::null()).stdout(Stdio::piped()).stderr(Stdio::piped()).spawn().map_err(|e| format!("cannot spawn {}: {e}", bin().display()))?;
    // both pipes are drained while the child runs: a listing longer than the pipe buffer must
    // not make the child wait for a reader (which would look like a stall)
    fn drain(r: Option<impl std::io::Read + Send + 'static>) -> std::thread::JoinHandle<Vec<u8>> {
        std::thread::spawn(move || {
            let mut v = vec![];
            if let Some(mut r) = r {
                let _ = r.read_to_end(&mut v);
            }
            v
        })
    }
    let (so, se) = (drain(c.stdout.take()), drain(c.stderr.take()));
    let start = Instant::now();
    let mut timed_out = false;
    let status = loop {
        match c.try_wait() {
            Ok(Some(st)) => break st,
            Ok(None) => {
                if start.elapsed() > limit {
                    let _ = c.kill();
                    timed_out = true;
                    break c.wait().map_err(|e| e.to_string())?;
                }
                std::thread::sleep(Duration::from_millis(1));
            }
            Err(e) => return Err(e.to_string()),
        }
    };
    let (stdout, stderr) = (so.join().unwrap_or_default(), se.join().unwrap_or_default());
    Ok(Out { code: status.code(), stdout: String::from_utf8_lossy(&stdout).into(), stderr: String::from_utf8_lossy(&stderr).into(), timed_out })
}

fn workdir(idx: usize) -> PathBuf {
    let d = PathBuf::from(format!("{}/target/c20-work/{}-{}", root(), std::process::id(), idx));
    let _ = std::fs::create_dir_all(&d);
    d
}

#[derive(Clone, Debug)]
struct MuxCase {
    codec_arg: Option<&'static str>,
    codec: VCodec,
    dims: (u32, u32),
    fps: &'static str,
    audio: Option<(Option<&'static str>, ACodec, u32, u8)>,
    title: Option<&'static str>,
    lang: Option<&'static str>,
    json: bool,
    verbose: bool,
}

const VCODEC_ARGS: [(Option<&str>, VCodec); 10] = [
    (Some("h264"), VCodec::H264),
    (Some("H264"), VCodec::H264),
    (Some("h.264"), VCodec::H264),
    (Some("avc"), VCodec::H264),
    (Some("h265"), VCodec::H265),
    (Some("h.265"), VCodec::H265),
    (Some("hevc"), VCodec::H265),
    (Some("av1"), VCodec::Av1),
    (Some("vp9"), VCodec::Vp9),
    (None, VCodec::H264),
];

const ACODEC_ARGS: [(Option<&str>, ACodec); 9] = [
    (Some("aac"), ACodec::AacLc),
    (Some("aac-lc"), ACodec::AacLc),
    (Some("aac-main"), ACodec::AacMain),
    (Some("aac-ssr"), ACodec::AacSsr),
    (Some("aac-ltp"), ACodec::AacLtp),
    (Some("aac-he"), ACodec::AacHe),
    (Some("aac-hev2"), ACodec::AacHev2),
    (Some("opus"), ACodec::Opus),
    (None, ACodec::AacLc),
];

fn mux_cases(thorough: bool) -> Vec<MuxCase> {
    let dims = [(320u32, 240u32), (1920, 1080), (4096, 2160)];
    let fpss = ["1", "29.97", "120"];
    let rates = [(44100u32, 2u8), (48000, 1), (8000, 8)];
    let titles = [None, Some("T"), Some("é x"), Some("  padded title  "), Some("")];
    let langs = [None, Some("eng")];
    let modes = [(false, false), (true, false), (false, true), (true, true)];
    let mut audios: Vec<Option<(Option<&'static str>, ACodec, u32, u8)>> = vec![None];
    for (a, c) in ACODEC_ARGS {
        for (r, ch) in rates {
            audios.push(Some((a, c, r, ch)));
        }
    }
    let mut v = vec![];
    if thorough {
        for (ca, c) in VCODEC_ARGS {
            for &d in &dims {
                for f in fpss {
                    for a in &audios {
                        for t in titles {
                            for l in langs {
                                for (j, vb) in modes {
                                    v.push(MuxCase { codec_arg: ca, codec: c, dims: d, fps: f, audio: *a, title: t, lang: l, json: j, verbose: vb });
                                }
                            }
                        }
                    }
                }
            }
        }
    } else {
        // every (codec spelling, audio option) pair with the remaining factors cycling, then
        // the full product of the remaining factors on one codec/audio pair: every value of
        // every factor and every pair of values of (codec, audio) and of the other factors occurs
        let mut k = 0usize;
        for (ca, c) in VCODEC_ARGS {
            for a in &audios {
                v.push(MuxCase { codec_arg: ca, codec: c, dims: dims[k % 3], fps: fpss[(k / 3) % 3], audio: *a, title: titles[(k / 2) % 5], lang: langs[k % 2], json: modes[k % 4].0, verbose: modes[k % 4].1 });
                k += 1;
            }
        }
        for &d in &dims {
            for f in fpss {
                for t in titles {
                    for l in langs {
                        for (j, vb) in modes {
                            v.push(MuxCase { codec_arg: Some("hevc"), codec: VCodec::H265, dims: d, fps: f, audio: Some((Some("opus"), ACodec::Opus, 48000, 2)), title: t, lang: l, json: j, verbose: vb });
                        }
                    }
                }
            }
        }
    }
    v
}

fn vc(c: VCodec) -> VideoCodec {
    crate::run::vcodec(c)
}
fn ac(c: ACodec) -> AudioCodec {
    crate::run::acodec(c)
}

/// the library run the statement refers to: same settings, the single frame at t = 0
fn library_twin(c: &MuxCase, vdata: &[u8], adata: Option<&[u8]>) -> Result<Vec<u8>, String> {
    let mut out = Vec::new();
    {
        let mut b = MuxerBuilder::new(&mut out).video(vc(c.codec), c.dims.0, c.dims.1, c.fps.parse::<f64>().unwrap());
        if let Some((_, a, r, ch)) = c.audio {
            b = b.audio(ac(a), r, ch as u16);
        }
        if let Some(t) = c.title {
            b = b.with_metadata(Metadata::new().with_title(t));
        }
        if let Some(l) = c.lang {
            b = b.set_language(l);
        }
        let mut m = b.build().map_err(|e| e.to_string())?;
        m.write_video(0.0, vdata, true).map_err(|e| e.to_string())?;
        if let Some(a) = adata {
            m.write_audio(0.0, a).map_err(|e| e.to_string())?;
        }
        m.finish().map_err(|e| e.to_string())?;
    }
    Ok(out)
}

fn hex_text(d: &[u8], style: usize) -> String {
    let h = hex(d);
    match style % 3 {
        0 => h,
        1 => format!("{}\n", h.to_uppercase()),
        _ => h.as_bytes().chunks(16).map(|c| String::from_utf8_lossy(c).to_string()).collect::<Vec<_>>().join(" \n"),
    }
}

fn judge_mux(c: &MuxCase, dir: &Path, k: usize, global: (usize, bool), order: (u64, u64), t: &mut Tally, produced: &mut Vec<PathBuf>) {
    // frame sizes cycle independently of the pre-existing output state: 9 bytes, 5000 bytes
    // (hex text beyond 8 KiB), 70000 bytes (beyond 64 KiB)
    let vlen = [9usize, 5000, 70_000][(k / 3) % 3];
    let alen = [7usize, 4500][(k / 9) % 2];
    // what the single frame holds: mostly an ordinary keyframe; every fifth case a frame that
    // carries its configuration but whose picture is not of the codec's IDR kind (H.264 non-IDR
    // slice, H.265 BLA picture, AV1 inter frame behind a sequence header, VP9 inter frame): the
    // command treats its one frame as the keyframe at t = 0, exactly as the library call does
    let shape = if global.0 % 5 == 4 { 1 + (global.0 / 5) % 2 } else { 0 };
    let vdata = match (shape, c.codec) {
        (0, _) => video_frame(c.codec, true, true, 1, vlen).0,
        (2, VCodec::H264) | (2, VCodec::H265) => {
            let mut u = oracle::frames::nal_units(c.codec, true, true, 1, vlen);
            let slice = u.iter_mut().rev().find(|x| x.len() > 2).unwrap();
            slice[0] = if c.codec == VCodec::H264 { 0x61 } else { 0x20 };
            oracle::frames::annexb_mode(&u, k as u32)
        }
        _ => video_frame(c.codec, false, true, 1, vlen).0,
    };
    let adata = c.audio.map(|(_, a, _, _)| audio_frame(a, 1, alen).0);
    let vpath = dir.join(format!("v{k}.hex"));
    let apath = dir.join(format!("a{k}.hex"));
    let opath = dir.join(format!("o{k}.mp4"));
    std::fs::write(&vpath, hex_text(&vdata, k)).unwrap();
    // what is at the output path beforehand: nothing, a shorter file, a longer file
    let pre: usize = [0usize, 10, 70_000][k % 3];
    if pre > 0 {
        std::fs::write(&opath, vec![0xAAu8; pre]).unwrap();
    }
    let mut args: Vec<String> = vec![];
    if c.json {
        args.push("--json".into());
    }
    if c.verbose {
        args.push("--verbose".into());
    }
    args.extend(["--no-progress".to_string(), "mux".into(), "--video".into(), vpath.display().to_string(), "--output".into(), opath.display().to_string()]);
    args.extend(["--width".to_string(), c.dims.0.to_string(), "--height".into(), c.dims.1.to_string(), "--fps".into(), c.fps.to_string()]);
    if let Some(ca) = c.codec_arg {
        args.extend(["--video-codec".to_string(), ca.to_string()]);
    }
    if let Some((aa, _, r, ch)) = c.audio {
        std::fs::write(&apath, hex_text(adata.as_ref().unwrap(), k + 1)).unwrap();
        args.extend(["--audio".to_string(), apath.display().to_string(), "--sample-rate".into(), r.to_string(), "--channels".into(), ch.to_string()]);
        if let Some(aa) = aa {
            args.extend(["--audio-codec".to_string(), aa.to_string()]);
        }
    }
    if let Some(ti) = c.title {
        args.extend(["--title".to_string(), ti.to_string()]);
    }
    if let Some(l) = c.lang {
        args.extend(["--language".to_string(), l.to_string()]);
    }
    t.evaluations += 1;
    let case = || json!({"engine": "E6-mux", "args": args, "video_hex": hex(&vdata), "audio_hex": adata.as_ref().map(|a| hex(a)), "preexisting_output_bytes": pre, "mux_index": global.0, "thorough": global.1, "k": k});
    let o = match spawn(&args, Duration::from_secs(10)) {
        Ok(o) => o,
        Err(e) => {
            t.violation("C20/machinery/spawn", order, || e.clone(), case);
            return;
        }
    };
    let mut issues: Vec<(String, String)> = vec![];
    let want = library_twin(c, &vdata, adata.as_deref());
    if shape != 0 {
        t.count(if want.is_ok() { "mux_non_idr_frames_library_accepts" } else { "mux_non_idr_frames_library_refuses" }, 1);
    }
    if o.timed_out {
        issues.push(("mux/timeout".into(), "mux did not finish within 10 s".into()));
    } else if let (Err(e), true) = (&want, shape != 0) {
        // the library refuses this frame as a first keyframe: the command must fail too
        if o.code == Some(0) {
            issues.push(("mux/accepted-what-the-library-refuses".into(), format!("exit 0 although the library refuses the frame ({e})")));
        }
    } else if o.code != Some(0) {
        issues.push(("mux/valid-options-rejected".into(), format!("exit {:?}; stderr: {}", o.code, o.stderr.chars().take(300).collect::<String>())));
    } else {
        let got = std::fs::read(&opath).unwrap_or_default();
        match want {
            Err(e) => issues.push(("mux/library-twin-failed".into(), e)),
            Ok(w) => {
                let mut h = Fnv::new();
                h.bytes(&got);
                t.outcome(h.0);
                if got != w {
                    let pos = got.iter().zip(&w).position(|(a, b)| a != b).unwrap_or(got.len().min(w.len()));
                    issues.push(("mux/file-differs-from-library".into(), format!("output file ({} bytes) differs from the library's ({} bytes) at byte {pos}", got.len(), w.len())));
                } else {
                    produced.push(opath.clone());
                }
            }
        }
        let (ev, ea) = (1u64, c.audio.is_some() as u64);
        if c.json {
            match serde_json::from_str::<Value>(&o.stdout) {
                Ok(v) => {
                    if v["video_frames"].as_u64() != Some(ev) || v["audio_frames"].as_u64() != Some(ea) {
                        issues.push(("mux/reported-frame-counts".into(), format!("JSON reports v{} a{}, expected v{ev} a{ea}", v["video_frames"], v["audio_frames"])));
                    }
                }
                Err(e) => issues.push(("mux/json-output-unparsable".into(), format!("{e}: {}", o.stdout.chars().take(200).collect::<String>()))),
            }
        } else if !(o.stdout.contains(&format!("Video frames: {ev}")) && o.stdout.contains(&format!("Audio frames: {ea}"))) {
            issues.push(("mux/reported-frame-counts".into(), format!("stdout: {}", o.stdout.chars().take(300).collect::<String>())));
        }
    }
    t.sample(2, || json!({"args": args, "exit": o.code, "stdout_head": o.stdout.chars().take(120).collect::<String>()}));
    for (s, d) in issues {
        t.violation(&format!("C20/{s}"), order, || format!("muxide {}: {d}", args.join(" ")), case);
    }
}

/// one invalid deviation from a valid command line
fn invalid_cases(dir: &Path) -> Vec<(String, Vec<String>)> {
    let (vd, _) = video_frame(VCodec::H264, true, true, 1, 9);
    let ad = audio_frame(ACodec::AacLc, 1, 7).0;
    let w = |name: &str, bytes: &[u8]| {
        let p = dir.join(name);
        std::fs::write(&p, bytes).unwrap();
        p.display().to_string()
    };
    let v = w("ok.v.hex", hex(&vd).as_bytes());
    let a = w("ok.a.hex", hex(&ad).as_bytes());
    let empty = w("empty.hex", b"");
    let ws = w("ws.hex", b" \n\t ");
    let odd = w("odd.hex", &hex(&vd).as_bytes()[..hex(&vd).len() - 1]);
    let nonhex = w("nonhex.hex", b"0011zz22");
    let uni = w("unicode.hex", "00é1".as_bytes());
    let binary = w("binary.hex", &[0xff, 0xfe, 0x00, 0x80, 0x81]);
    let garbage = w("garbage.hex", b"deadbeef");
    let out = dir.join("invalid-out.mp4").display().to_string();
    let base = |video: &str| -> Vec<String> { ["--no-progress", "mux", "--video", video, "--output", &out, "--width", "640", "--height", "480", "--fps", "30"].iter().map(|s| s.to_string()).collect() };
    let with = |mut b: Vec<String>, extra: &[&str]| {
        b.extend(extra.iter().map(|s| s.to_string()));
        b
    };
    let replace = |b: &[String], flag: &str, val: Option<&str>| -> Vec<String> {
        let mut o = vec![];
        let mut i = 0;
        while i < b.len() {
            if b[i] == flag {
                if let Some(v) = val {
                    o.push(flag.to_string());
                    o.push(v.to_string());
                }
                i += 2;
            } else {
                o.push(b[i].clone());
                i += 1;
            }
        }
        o
    };
    let ok = base(&v);
    let oka = with(ok.clone(), &["--audio", &a, "--sample-rate", "48000", "--channels", "2"]);
    let mut c: Vec<(String, Vec<String>)> = vec![];
    c.push(("no-inputs".into(), replace(&ok, "--video", None)));
    c.push(("no-output".into(), replace(&ok, "--output", None)));
    c.push(("no-width".into(), replace(&ok, "--width", None)));
    c.push(("no-height".into(), replace(&ok, "--height", None)));
    c.push(("no-fps".into(), replace(&ok, "--fps", None)));
    c.push(("audio-only".into(), replace(&oka, "--video", None)));
    c.push(("audio-no-sample-rate".into(), replace(&oka, "--sample-rate", None)));
    c.push(("audio-no-channels".into(), replace(&oka, "--channels", None)));
    for bad in ["mpeg2", "", "h266"] {
        c.push((format!("unknown-video-codec/{bad}"), with(ok.clone(), &["--video-codec", bad])));
    }
    for bad in ["mp3", "none", "aac-xyz"] {
        c.push((format!("bad-audio-codec/{bad}"), with(oka.clone(), &["--audio-codec", bad])));
    }
    for bad in ["0", "319", "4097", "-1", "abc", "4294967296"] {
        c.push((format!("width/{bad}"), replace(&ok, "--width", Some(bad))));
    }
    for bad in ["0", "239", "2161", "x"] {
        c.push((format!("height/{bad}"), replace(&ok, "--height", Some(bad))));
    }
    for bad in ["0", "-5", "120.5", "1e9", "NaN", "inf", "fast"] {
        c.push((format!("fps/{bad}"), replace(&ok, "--fps", Some(bad))));
    }
    for bad in ["0", "192001", "-1", "4294967296"] {
        c.push((format!("sample-rate/{bad}"), replace(&oka, "--sample-rate", Some(bad))));
    }
    for bad in ["0", "9", "255", "256"] {
        c.push((format!("channels/{bad}"), replace(&oka, "--channels", Some(bad))));
    }
    let missing = dir.join("does-not-exist.hex").display().to_string();
    for (name, p) in [("missing", &missing), ("empty", &empty), ("whitespace", &ws), ("odd-length", &odd), ("non-hex", &nonhex), ("non-ascii", &uni), ("binary", &binary), ("not-a-keyframe", &garbage)] {
        c.push((format!("video-input/{name}"), base(p)));
        c.push((format!("audio-input/{name}"), replace(&oka, "--audio", Some(p))));
    }
    c.push(("wrong-codec-for-data".into(), with(ok.clone(), &["--video-codec", "av1"])));
    c.push(("fragmented".into(), with(ok.clone(), &["--fragmented"])));
    c.push(("unknown-flag".into(), with(ok.clone(), &["--bogus"])));
    c.push(("output-is-directory".into(), replace(&ok, "--output", Some(&dir.display().to_string()))));
    // an output that can be opened but not written (every write fails with ENOSPC): the file the
    // library would produce is small enough to sit in any buffer until exit
    if Path::new("/dev/full").exists() {
        c.push(("output-device-full".into(), replace(&ok, "--output", Some("/dev/full"))));
        let mut j = replace(&ok, "--output", Some("/dev/full"));
        j.insert(0, "--json".into());
        c.push(("output-device-full-json".into(), j));
    }
    c
}

fn judge_invalid(name: &str, args: &[String], order: (u64, u64), t: &mut Tally) {
    t.evaluations += 1;
    let case = || json!({"engine": "E6-mux-invalid", "name": name, "args": args});
    match spawn(args, Duration::from_secs(10)) {
        Err(e) => t.violation("C20/machinery/spawn", order, || e.clone(), case),
        Ok(o) => {
            t.outcome(oracle::report::h64(format!("{name}{:?}", o.code).as_bytes()));
            if o.timed_out {
                t.violation("C20/mux-invalid/timeout", order, || format!("{name}: no exit within 10 s"), case);
            } else if o.code == Some(0) {
                t.violation("C20/mux-invalid/exit-0", order, || format!("{name}: muxide {} exited successfully; stdout {}", args.join(" "), o.stdout.chars().take(200).collect::<String>()), case);
            }
            if o.stdout.contains("Muxing complete") || o.stderr.contains("Muxing complete") {
                t.violation("C20/mux-invalid/reports-completion", order, || format!("{name}: completion reported although the command is invalid (exit {:?})", o.code), case);
            }
        }
    }
}

fn validate_inputs(dir: &Path) -> Vec<(&'static str, Option<String>, bool)> {
    // (name, path, is acceptable hex input)
    let w = |name: &str, bytes: &[u8]| {
        let p = dir.join(name);
        std::fs::write(&p, bytes).unwrap();
        Some(p.display().to_string())
    };
    vec![
        ("absent", None, true),
        ("missing", Some(dir.join("val-missing.hex").display().to_string()), false),
        ("empty", w("val-empty.hex", b""), false),
        ("whitespace", w("val-ws.hex", b"  \n\t"), false),
        ("valid", w("val-ok.hex", b"00ff 12\nAB cd"), true),
        ("valid-one-byte", w("val-one.hex", b"7f"), true),
        ("odd", w("val-odd.hex", b"00ff1"), false),
        ("bad-char", w("val-bad.hex", b"00gg"), false),
        ("non-ascii", w("val-uni.hex", "00é0".as_bytes()), false),
        ("binary", w("val-bin.hex", &[0x00, 0xff, 0xfe, 0x80]), false),
        // inputs that exist without being regular files: a symbolic link to valid text, a dangling
        // link, and a named pipe that delivers valid text (created and fed per run, see judge_validate)
        ("symlink-valid", {
            let p = dir.join("val-link.hex");
            let _ = std::fs::remove_file(&p);
            std::os::unix::fs::symlink(dir.join("val-ok.hex"), &p).unwrap();
            Some(p.display().to_string())
        }, true),
        ("symlink-dangling", {
            let p = dir.join("val-dangling.hex");
            let _ = std::fs::remove_file(&p);
            std::os::unix::fs::symlink(dir.join("val-nowhere.hex"), &p).unwrap();
            Some(p.display().to_string())
        }, false),
        ("fifo-valid", Some(dir.join("val-fifo").display().to_string()), true),
    ]
}

/// a named pipe at `path` and a child that writes `text` into it once a reader opens it
fn fifo_with_feeder(path: &str, text: &str) -> Option<std::process::Child> {
    let _ = std::fs::remove_file(path);
    let ok = Command::new("mkfifo").arg(path).status().map(|s| s.success()).unwrap_or(false);
    if !ok {
        return None;
    }
    Command::new("sh").arg("-c").arg(format!("printf '%s' '{text}' > '{path}'")).stdin(Stdio::null()).stdout(Stdio::null()).stderr(Stdio::null()).spawn().ok()
}

fn judge_validate(dir: &Path, v: &(&str, Option<String>, bool), a: &(&str, Option<String>, bool), mode: usize, k: usize, order: (u64, u64), t: &mut Tally) {
    if v.1.is_none() && a.1.is_none() {
        return; // the zero-input case is outside the statement
    }
    let mut args: Vec<String> = vec![];
    let report = dir.join(format!("report{k}.json"));
    if mode == 0 {
        args.push("--json".into());
    }
    args.push("validate".into());
    let mut feeders = vec![];
    let mut fifos = vec![];
    let mut path_of = |x: &(&str, Option<String>, bool), tag: &str| -> Option<String> {
        let p = x.1.clone()?;
        if x.0 == "fifo-valid" {
            let p = format!("{p}-{tag}{k}");
            match fifo_with_feeder(&p, "00ff 12ab") {
                Some(c) => feeders.push(c),
                None => return None,
            }
            fifos.push(p.clone());
            return Some(p);
        }
        Some(p)
    };
    let (vp, ap) = (path_of(v, "v"), path_of(a, "a"));
    if (v.1.is_some() && vp.is_none()) || (a.1.is_some() && ap.is_none()) {
        t.count("validate_cases_skipped_no_mkfifo", 1);
        return;
    }
    if let Some(p) = &vp {
        args.extend(["--video".to_string(), p.clone()]);
    }
    if let Some(p) = &ap {
        args.extend(["--audio".to_string(), p.clone()]);
    }
    if mode == 1 {
        args.extend(["--output".to_string(), report.display().to_string()]);
    }
    t.evaluations += 1;
    let case = || json!({"engine": "E6-validate", "video": v.0, "audio": a.0, "args": args});
    let spawned = spawn(&args, Duration::from_secs(5));
    for mut c in feeders {
        let _ = c.kill();
        let _ = c.wait();
    }
    for f in &fifos {
        let _ = std::fs::remove_file(f);
    }
    match spawned {
        Err(e) => t.violation("C20/machinery/spawn", order, || e.clone(), case),
        Ok(o) => {
            if o.timed_out {
                t.violation("C20/validate/timeout", order, || format!("validate {}/{} did not terminate within 5 s", v.0, a.0), case);
                return;
            }
            let text = if mode == 1 { std::fs::read_to_string(&report).unwrap_or_default() } else { o.stdout.clone() };
            let want = v.2 && a.2;
            t.outcome(oracle::report::h64(format!("{}{}{mode}", v.0, a.0).as_bytes()));
            match serde_json::from_str::<Value>(&text) {
                Ok(j) => {
                    if j["valid"].as_bool() != Some(want) {
                        t.violation("C20/validate/wrong-verdict", order, || format!("video={} audio={}: verdict {} but expected valid={want}", v.0, a.0, j["valid"]), case);
                    }
                }
                Err(_) => t.violation("C20/validate/no-report", order, || format!("video={} audio={}: exit {:?}, no parsable report ({}); stderr {}", v.0, a.0, o.code, text.chars().take(100).collect::<String>(), o.stderr.chars().take(200).collect::<String>()), case),
            }
        }
    }
}

fn info_files(dir: &Path, thorough: bool) -> Vec<(String, Vec<u8>)> {
    let mut v: Vec<(String, Vec<u8>)> = vec![];
    for n in 0..8usize {
        v.push((format!("short{n}"), vec![0x41; n]));
    }
    // all files of <= 3 boxes (2 in the quick tier) whose size fields range over the boundary set
    let types: [[u8; 4]; 3] = [*b"ftyp", *b"moov", [0xff, 0xfe, 0x00, 0x80]];
    let payload = 5usize;
    let sizes = |exact: usize| -> Vec<u32> { vec![0, 1, 7, 8, 9, exact as u32, exact as u32 + 1, u32::MAX] };
    let max_boxes = if thorough { 3 } else { 2 };
    let mut stack: Vec<(Vec<u8>, usize)> = vec![(vec![], 0)];
    let mut count = 0;
    while let Some((prefix, n)) = stack.pop() {
        if n > 0 {
            count += 1;
            v.push((format!("boxes{count}"), prefix.clone()));
        }
        if n == max_boxes {
            continue;
        }
        for (ti, ty) in types.iter().enumerate() {
            for s in sizes(8 + payload) {
                if thorough || ti != 1 || s >= 8 {
                    let mut f = prefix.clone();
                    f.extend_from_slice(&s.to_be_bytes());
                    f.extend_from_slice(ty);
                    f.extend(std::iter::repeat(0x5a).take(payload));
                    stack.push((f, n + 1));
                }
            }
        }
    }
    let _ = dir;
    v
}

/// Well-formed files by construction, for `info`: (kind, n) ->
///  "frag": the library's fragmented recording (init segment + n one-sample fragments);
///  "free": ftyp + n empty `free` boxes + mdat; "wide": ftyp, an mdat with a 64-bit largesize
///  header, n `free` boxes, and a last box of size 0 (extends to the end of the file).
fn gen_info_file(kind: &str, n: usize) -> Vec<u8> {
    let bx = |ty: &[u8; 4], payload: &[u8]| {
        let mut b = ((8 + payload.len()) as u32).to_be_bytes().to_vec();
        b.extend_from_slice(ty);
        b.extend_from_slice(payload);
        b
    };
    let ftyp = bx(b"ftyp", b"isom\0\0\x02\0isomiso2");
    match kind {
        "frag" => {
            let fc = crate::frag::FCfg { codec: oracle::frames::VCodec::H264, via_builder: true, timescale: 90000, fragment_ms: 2000, start_dts: 0, width: 640, height: 480, ps_len: 10 };
            let mut m = crate::frag::make(&fc).expect("fragmented muxer");
            let mut f = m.init_segment();
            for i in 0..n as u64 {
                let _ = m.write_video(i * 3000, i * 3000, &[0, 0, 0, 1, 0x65], true);
                if let Some(sg) = m.flush_segment() {
                    f.extend(sg);
                }
            }
            f
        }
        "free" => {
            let mut f = ftyp;
            for _ in 0..n {
                f.extend(bx(b"free", &[]));
            }
            f.extend(bx(b"mdat", &[1, 2, 3]));
            f
        }
        _ => {
            let mut f = ftyp;
            f.extend_from_slice(&1u32.to_be_bytes());
            f.extend_from_slice(b"mdat");
            f.extend_from_slice(&(16u64 + 5).to_be_bytes());
            f.extend_from_slice(&[9, 8, 7, 6, 5]);
            // a header-only box in the 64-bit form (largesize = 16, its own header)
            f.extend_from_slice(&1u32.to_be_bytes());
            f.extend_from_slice(b"free");
            f.extend_from_slice(&16u64.to_be_bytes());
            for _ in 0..n {
                f.extend(bx(b"free", &[]));
            }
            f.extend_from_slice(&0u32.to_be_bytes());
            f.extend_from_slice(b"skip");
            f.extend_from_slice(&[0x11; 7]);
            f
        }
    }
}

/// top-level boxes of a file that is well-formed by construction (ISO/IEC 14496-12 4.2: size 1 =
/// 64-bit largesize after the type, size 0 = the box extends to the end of the file)
fn top_level(d: &[u8]) -> Vec<(String, u64, u64)> {
    let mut v = vec![];
    let mut pos = 0usize;
    while pos + 8 <= d.len() {
        let s32 = u32::from_be_bytes(d[pos..pos + 4].try_into().unwrap()) as u64;
        let size = match s32 {
            0 => (d.len() - pos) as u64,
            1 => u64::from_be_bytes(d[pos + 8..pos + 16].try_into().unwrap()),
            n => n,
        };
        assert!(size >= 8 && pos as u64 + size <= d.len() as u64, "generated file is not well-formed");
        v.push((oracle::reader::fcc(&[d[pos + 4], d[pos + 5], d[pos + 6], d[pos + 7]]), size, pos as u64));
        pos += size as usize;
    }
    assert_eq!(pos, d.len(), "generated file is not well-formed");
    v
}

fn gen_info_cases(thorough: bool) -> Vec<(&'static str, usize)> {
    let mut v = vec![];
    let mut counts: Vec<usize> = (0..=20).collect();
    counts.extend([63, 64, 65, 127, 128, 129, 255, 256, 257, 511, 512, 513, 1021, 1022, 1023, 1024, 1025, 2047, 2048, 2049, 4095, 4096, 4097, 65534, 65535, 65536, 65537]);
    if thorough {
        counts.extend([100_000, 1_000_000]);
    }
    for &n in &counts {
        v.push(("free", n));
        if n <= 5000 {
            v.push(("frag", n));
        }
        if n <= 300 {
            v.push(("wide", n));
        }
    }
    v
}

fn judge_info_gen(dir: &Path, kind: &str, n: usize, k: usize, order: (u64, u64), t: &mut Tally) {
    let bytes = gen_info_file(kind, n);
    let p = dir.join(format!("infogen{k}.bin"));
    std::fs::write(&p, &bytes).unwrap();
    t.evaluations += 1;
    t.count("info_generated_well_formed_files", 1);
    let case = || json!({"engine": "E6-info-gen", "kind": kind, "n": n});
    for json_mode in [true, false] {
        let args: Vec<String> = if json_mode { vec!["--json".into(), "info".into(), p.display().to_string()] } else { vec!["info".into(), p.display().to_string()] };
        match spawn(&args, Duration::from_secs(20)) {
            Err(e) => t.violation("C20/machinery/spawn", order, || e.clone(), case),
            Ok(o) => {
                if o.timed_out {
                    t.violation("C20/info/timeout", order, || format!("info on {kind}/{n} ({} bytes) did not terminate within 20 s", bytes.len()), case);
                    continue;
                }
                let want = top_level(&bytes);
                if json_mode {
                    t.outcome(oracle::report::h64(o.stdout.as_bytes()) ^ o.code.unwrap_or(-1) as u64);
                    match serde_json::from_str::<Value>(&o.stdout) {
                        Ok(j) => {
                            let got: Vec<(String, u64, u64)> = j["boxes"].as_array().map(|a| a.iter().map(|b| (b["type"].as_str().unwrap_or("").to_string(), b["size"].as_u64().unwrap_or(0), b["offset"].as_u64().unwrap_or(0))).collect()).unwrap_or_default();
                            if got != want || o.code != Some(0) {
                                let first = got.iter().zip(want.iter()).position(|(a, b)| a != b).unwrap_or(got.len().min(want.len()));
                                t.violation("C20/info/box-list", order, || format!("{kind}/{n}: info lists {} boxes (exit {:?}), the file has {} top-level boxes; first difference at index {first}: {:?} vs {:?}", got.len(), o.code, want.len(), got.get(first), want.get(first)), case);
                            }
                        }
                        Err(e) => t.violation("C20/info/no-json", order, || format!("exit {:?}: {e}", o.code), case),
                    }
                } else {
                    // the plain-text listing names every box once, in order
                    let listed = o.stdout.lines().filter(|l| want.iter().any(|w| l.contains(&format!("{}", w.0)) && l.contains(&format!("{}", w.1)))).count();
                    if o.code != Some(0) || listed < want.len() {
                        t.violation("C20/info/text-list", order, || format!("{kind}/{n}: the text listing has {listed} box lines (exit {:?}), the file has {} top-level boxes", o.code, want.len()), case);
                    }
                }
            }
        }
    }
    let _ = std::fs::remove_file(&p);
}

fn judge_info(dir: &Path, name: &str, bytes: &[u8], well_formed: bool, k: usize, order: (u64, u64), t: &mut Tally) {
    let p = dir.join(format!("info{k}.bin"));
    std::fs::write(&p, bytes).unwrap();
    let args: Vec<String> = vec!["--json".into(), "info".into(), p.display().to_string()];
    t.evaluations += 1;
    let case = || json!({"engine": "E6-info", "name": name, "file_hex": hex(&bytes[..bytes.len().min(200)]), "well_formed": well_formed});
    match spawn(&args, Duration::from_secs(5)) {
        Err(e) => t.violation("C20/machinery/spawn", order, || e.clone(), case),
        Ok(o) => {
            t.outcome(oracle::report::h64(o.stdout.as_bytes()) ^ o.code.unwrap_or(-1) as u64);
            if o.timed_out {
                t.violation("C20/info/timeout", order, || format!("info on {name} ({} bytes) did not terminate within 5 s", bytes.len()), case);
                return;
            }
            if well_formed {
                let mut pr = Probs::default();
                let want: Vec<(String, u64, u64)> = children(bytes, 0, bytes.len(), "", &mut pr).iter().map(|b| (oracle::reader::fcc(&b.typ), b.size() as u64, b.start as u64)).collect();
                match serde_json::from_str::<Value>(&o.stdout) {
                    Ok(j) => {
                        let got: Vec<(String, u64, u64)> = j["boxes"].as_array().map(|a| a.iter().map(|b| (b["type"].as_str().unwrap_or("").to_string(), b["size"].as_u64().unwrap_or(0), b["offset"].as_u64().unwrap_or(0))).collect()).unwrap_or_default();
                        if got != want || o.code != Some(0) {
                            t.violation("C20/info/box-list", order, || format!("info lists {got:?} (exit {:?}), the file's top-level boxes are {want:?}", o.code), case);
                        }
                    }
                    Err(e) => t.violation("C20/info/no-json", order, || format!("exit {:?}: {e}", o.code), case),
                }
            }
            let _ = std::fs::remove_file(&p);
        }
    }
}

enum Item {
    Mux(Vec<MuxCase>),
    Invalid,
    Validate,
    Info(Vec<(String, Vec<u8>)>),
    InfoGen(Vec<(&'static str, usize)>),
}

pub fn check(ctx: &Ctx) -> i32 {
    if !bin().exists() {
        eprintln!("CLI binary {} not built (./check builds it for C20)", bin().display());
        return 2;
    }
    let cases = mux_cases(ctx.thorough);
    let n_mux = cases.len();
    let mut items: Vec<Item> = cases.chunks(40).map(|c| Item::Mux(c.to_vec())).collect();
    items.push(Item::Invalid);
    items.push(Item::Validate);
    let info = info_files(Path::new("."), ctx.thorough);
    let n_info = info.len();
    for ch in info.chunks(200) {
        items.push(Item::Info(ch.to_vec()));
    }
    let gen = gen_info_cases(ctx.thorough);
    let n_gen = gen.len();
    for ch in gen.chunks(8) {
        items.push(Item::InfoGen(ch.to_vec()));
    }
    let tally = par_items(&items, ctx.seed, |idx, it, t| {
        let dir = workdir(idx);
        match it {
            Item::Mux(cs) => {
                let mut produced = vec![];
                for (k, c) in cs.iter().enumerate() {
                    judge_mux(c, &dir, k, (idx * 40 + k, ctx.thorough), (idx as u64, k as u64), t, &mut produced);
                }
                // info on every well-formed file the mux runs produced
                for (k, p) in produced.iter().enumerate() {
                    if let Ok(b) = std::fs::read(p) {
                        judge_info(&dir, "mux-output", &b, true, 10_000 + k, (idx as u64, 10_000 + k as u64), t);
                    }
                }
            }
            Item::Invalid => {
                for (k, (name, args)) in invalid_cases(&dir).iter().enumerate() {
                    judge_invalid(name, args, (idx as u64, k as u64), t);
                }
            }
            Item::Validate => {
                let ins = validate_inputs(&dir);
                let mut k = 0;
                for v in &ins {
                    for a in &ins {
                        for mode in 0..2 {
                            k += 1;
                            judge_validate(&dir, v, a, mode, k, (idx as u64, k as u64), t);
                        }
                    }
                }
            }
            Item::InfoGen(cs) => {
                for (k, (kind, n)) in cs.iter().enumerate() {
                    judge_info_gen(&dir, kind, *n, k, (idx as u64, k as u64), t);
                }
            }
            Item::Info(fs) => {
                for (k, (name, b)) in fs.iter().enumerate() {
                    judge_info(&dir, name, b, false, k, (idx as u64, k as u64), t);
                }
            }
        }
        let _ = std::fs::remove_dir_all(&dir);
    });
    let _ = std::fs::remove_dir_all(format!("{}/target/c20-work", root()));
    finish(
        ctx,
        &tally,
        Meta {
            level: "exploration",
            rule: format!("the built muxide binary is spawned for: {n_mux} valid mux option combinations ({}) - exit 0, output file (absent, 10 bytes or 70000 bytes of other content beforehand, cycling) byte-equal to an in-process library run with the same settings and the single frame at t=0 (video frames of 9 / 5000 / 70000 bytes, audio frames of 7 / 4500 bytes, cycling; every fifth frame carries its configuration with a non-IDR picture - H.264 non-IDR slice, H.265 BLA, AV1 / VP9 inter frame - and must be treated as the library call write_video(0, data, keyframe) treats it), reported frame counts; ~90 single invalid deviations from a valid command (missing/unknown/out-of-range options, eight kinds of bad input file for video and audio, --fragmented, wrong codec for the data) - exit != 0 and no completion message; validate: 13 x 13 input kinds (absent, missing, empty, whitespace, valid, odd, bad char, non-ASCII, binary, symbolic link to valid text, dangling link, named pipe delivering valid text) x {{--json, -o file}} - verdict valid iff every given input exists and is non-empty even-length hex; info: {n_info} files of <= {} boxes with size fields over {{0, 1, 7, 8, 9, exact, exact+1, 2^32-1}} x ASCII / non-UTF-8 types, files shorter than 8 bytes (termination within 5 s), every well-formed file produced by the mux runs, and {n_gen} well-formed files by construction (the library's fragmented recordings of 0..5000 fragments, ftyp + 0..65537 empty free boxes + mdat, and files with a 64-bit largesize mdat and a last box of size 0) through both the JSON and the text listing (box list equals the reader's top-level walk). Distinct by output file / verdict.", if ctx.thorough { "full product of 10 codec spellings x 3 dimensions x 3 frame rates x 28 audio options x 5 titles (incl. surrounding whitespace and empty) x 2 languages x 4 output modes" } else { "every (codec spelling, audio option) pair with the other factors cycling, plus the full product of dimensions x fps x title x language x output mode" }, if ctx.thorough { 3 } else { 2 }),
            bound: "option domains as listed".into(),
            exhaustive: true,
            assumptions: vec!["validate with no inputs, mux --dry-run and --creation-time (documented as unimplemented) are outside the statement and not judged".into(), "the binary under test is built from /repo's working tree into /verif/target/cli by ./check".into()],
            extra: json!({}),
        },
    )
}

pub fn replay(case: &Value) -> i32 {
    let mut t = Tally::default();
    let dir = workdir(999_999);
    match case["engine"].as_str() {
        Some("E6-mux") if case["mux_index"].is_u64() => {
            let cases = mux_cases(case["thorough"].as_bool().unwrap_or(false));
            let Some(c) = cases.get(case["mux_index"].as_u64().unwrap() as usize) else { return 2 };
            let mut produced = vec![];
            println!("re-running mux case #{} (inputs regenerated; output path pre-filled with {} bytes)", case["mux_index"], case["preexisting_output_bytes"]);
            judge_mux(c, &dir, case["k"].as_u64().unwrap_or(0) as usize, (case["mux_index"].as_u64().unwrap() as usize, case["thorough"].as_bool().unwrap_or(false)), (0, 0), &mut t, &mut produced);
        }
        Some("E6-info-gen") => {
            let kind: &'static str = match case["kind"].as_str() { Some("frag") => "frag", Some("free") => "free", _ => "wide" };
            judge_info_gen(&dir, kind, case["n"].as_u64().unwrap_or(0) as usize, 0, (0, 0), &mut t);
        }
        Some("E6-info") if case["file_hex"].as_str().map(|h| h.len() < 400).unwrap_or(false) => {
            let bytes = oracle::model::unhex(case["file_hex"].as_str().unwrap()).unwrap_or_default();
            judge_info(&dir, case["name"].as_str().unwrap_or("replay"), &bytes, case["well_formed"].as_bool().unwrap_or(false), 0, (0, 0), &mut t);
        }
        _ => {
            let args: Vec<String> = serde_json::from_value(case["args"].clone()).unwrap_or_default();
            println!("re-running: muxide {}", args.join(" "));
            println!("(input files of the original run were temporary; re-run ./check C20 quick to regenerate them)");
            return match spawn(&args, Duration::from_secs(10)) {
                Ok(o) => {
                    println!("exit {:?}\nstdout: {}\nstderr: {}", o.code, o.stdout, o.stderr);
                    1
                }
                Err(e) => {
                    println!("{e}");
                    2
                }
            };
        }
    }
    let _ = std::fs::remove_dir_all(&dir);
    if t.viol.is_empty() {
        println!("replay: property C20 holds for this case");
        0
    } else {
        for (s, f) in &t.viol {
            println!("replay: VIOLATION {s}: {}", f.detail);
        }
        1
    }
}
