//! C03 - decode/composition timing equals the submitted timestamps.
//! Enumerates timestamp *sequences* (step alphabets) rather than frame contents.

use crate::e1::{case_json, judge_history, outcome_hash, FileProp};
use crate::run::run_finished;
use oracle::fileck::{self, expect_from};
use oracle::frames::{audio_frame, video_frame, ACodec, VCodec};
use oracle::model::{brief_ops, Bytes, Cfg, Op, T};
use oracle::reader::parse_movie;
use oracle::refmodel::tick_is_robust;
use oracle::report::{finish, par_items, Ctx, Meta, Tally};
use serde_json::json;

const TICK: f64 = 1.0 / 90000.0;

fn video_steps() -> Vec<f64> {
    // the last three: 2^31 ticks (just outside the cumulative rule as a second frame), and the pair
    // 2^31 -+ 1800 whose sum is exactly 2^32 (a total span at the 32-bit boundary with every
    // single gap inside it)
    vec![1.0 / 30.0, 1001.0 / 30000.0, 1001.0 / 24000.0, TICK, 0.4 * TICK, 7.3, 2147483648.0 / 90000.0, (2147483648.0 - 1800.0) / 90000.0, (2147483648.0 + 1800.0) / 90000.0]
}

fn audio_steps() -> Vec<f64> {
    vec![0.0, 1024.0 / 48000.0, 1024.0 / 44100.0, 0.02]
}

/// all sequences over `alphabet` of length 0..=max
fn sequences(alphabet: usize, max: usize) -> Vec<Vec<usize>> {
    let mut out = vec![vec![]];
    let mut frontier = vec![vec![]];
    for _ in 0..max {
        let mut next = vec![];
        for s in &frontier {
            for a in 0..alphabet {
                let mut t: Vec<usize> = s.clone();
                t.push(a);
                next.push(t);
            }
        }
        out.extend(next.iter().cloned());
        frontier = next;
    }
    out
}

struct VideoItem {
    codec: VCodec,
    start: f64,
    steps: Vec<usize>,
    with_dts: bool,
}

/// composition offsets in seconds: none, two frames early, one frame late, and one *film* frame
/// late (3753.75 ticks: an offset that is not a whole number of ticks, so that rounding the
/// difference and differencing the roundings disagree)
const CTS_K: [f64; 4] = [0.0, -2.0 / 30.0, 1.0 / 30.0, 1001.0 / 24000.0];
/// index 4 = an offset that does not fit the signed 32-bit field (the write must be rejected
/// and leave the accepted samples' timing untouched)
const CTS_OVERFLOW: usize = 4;
/// the extremes of the signed 32-bit field: -2^31 and 2^31-1 ticks (both must be stored exactly)
const CTS_NEG_LIMIT: usize = 5;
const CTS_POS_LIMIT: usize = 6;

fn video_ops(it: &VideoItem, cts: &[usize]) -> Option<Vec<Op>> {
    let st = video_steps();
    let mut t = it.start;
    let mut ops = vec![];
    let n = it.steps.len() + 1;
    for i in 0..n {
        if i > 0 {
            t += st[it.steps[i - 1]];
        }
        let pts = match cts[i] {
            CTS_OVERFLOW => t + (2147483648.0 + 4500.0) / 90000.0,
            CTS_NEG_LIMIT => (oracle::refmodel::tick(t) as f64 - 2147483648.0) / 90000.0,
            CTS_POS_LIMIT => (oracle::refmodel::tick(t) as f64 + 2147483647.0) / 90000.0,
            k => t + CTS_K[k],
        };
        if !tick_is_robust(t) || (pts >= 0.0 && !tick_is_robust(pts)) {
            return None;
        }
        // every frame is a keyframe carrying its configuration, so that any accepted frame can
        // be the first one when earlier ones are rejected (negative PTS, sub-tick step ...)
        let (data, _) = video_frame(it.codec, true, true, i as u32 + 1, 3 + i);
        let data = Bytes::new(data);
        if it.with_dts {
            ops.push(Op::WVD { pts: T(pts), dts: T(t), data, key: true });
        } else {
            ops.push(Op::WV { pts: T(t), data, key: true });
        }
    }
    Some(ops)
}

pub fn check_c03(ctx: &Ctx) -> i32 {
    let vmax = if ctx.thorough { 5 } else { 4 }; // steps => frames = steps + 1 (9 steps: 6561 sequences x 4^5 offset vectors at 5)
    let amax = if ctx.thorough { 5 } else { 3 };
    let starts = [0.0, 0.5, 36000.0];
    let mut items = vec![];
    for codec in [VCodec::H264, VCodec::Vp9] {
        for &start in &starts {
            for steps in sequences(video_steps().len(), vmax - 1) {
                for with_dts in [false, true] {
                    items.push(VideoItem { codec, start, steps: steps.clone(), with_dts });
                }
            }
        }
    }
    let n_video_items = items.len();
    let mut tally = par_items(&items, ctx.seed, |idx, it, t| {
        let n = it.steps.len() + 1;
        let cfg = Cfg::basic(it.codec, None, idx % 2 == 0);
        let combos: Vec<Vec<usize>> = if it.with_dts {
            // all vectors over CTS_K of length n
            let mut v = vec![vec![]];
            for _ in 0..n {
                v = v.into_iter().flat_map(|p: Vec<usize>| (0..CTS_K.len()).map(move |k| { let mut q = p.clone(); q.push(k); q })).collect();
            }
            // plus: an overflowing offset at each single position of the all-zero and all-(+1) vectors
            for base in [0usize, 2] {
                for p in 0..n {
                    let mut q = vec![base; n];
                    q[p] = CTS_OVERFLOW;
                    v.push(q.clone());
                    // ... and the two extremes that still fit, at the same position
                    q[p] = CTS_NEG_LIMIT;
                    v.push(q.clone());
                    q[p] = CTS_POS_LIMIT;
                    v.push(q);
                }
            }
            v
        } else {
            vec![vec![0; n]]
        };
        for (k, cts) in combos.iter().enumerate() {
            match video_ops(it, cts) {
                Some(ops) => judge_history(FileProp::C03, &cfg, &ops, (idx as u64, k as u64), t),
                None => t.count("skipped_tie_sensitive_timestamps", 1),
            }
        }
    });

    // audio sequences against a fixed two-frame video
    let mut aitems = vec![];
    for ac in [ACodec::AacLc, ACodec::Opus] {
        for lead in [0.0, 0.01] {
            for steps in sequences(audio_steps().len(), amax - 1) {
                aitems.push((ac, lead, steps));
            }
        }
    }
    let n_audio_items = aitems.len();
    let t2 = par_items(&aitems, ctx.seed, |idx, (ac, lead, steps), t| {
        let cfg = Cfg::basic(VCodec::H264, Some(*ac), idx % 2 == 1);
        let st = audio_steps();
        // rej_at = 0: the plain history; rej_at = j: before the j-th accepted frame an audio call
        // with an unusable payload is made at a time between its neighbours (it is refused, and
        // the deltas of the accepted frames must be what they are without it)
        for rej_at in 0..=steps.len() {
            let mut ops = vec![];
            for i in 0..2 {
                let (d, _) = video_frame(VCodec::H264, i == 0, i == 0, i + 1, 4);
                ops.push(Op::WV { pts: T(i as f64 / 30.0), data: Bytes::new(d), key: i == 0 });
            }
            let mut at = *lead;
            for i in 0..=steps.len() {
                let prev = at;
                if i > 0 {
                    at += st[steps[i - 1]];
                }
                if !tick_is_robust(at) {
                    t.count("skipped_tie_sensitive_timestamps", 1);
                    return;
                }
                if i > 0 && rej_at == i {
                    let mid = (prev + at) / 2.0;
                    let bad = if ac.is_aac() { vec![0x03] } else { vec![] };
                    ops.push(Op::WA { pts: T(if tick_is_robust(mid) { mid } else { at }), data: Bytes::new(bad) });
                }
                let (d, _) = audio_frame(*ac, i as u32, 5 + i);
                ops.push(Op::WA { pts: T(at), data: Bytes::new(d) });
            }
            judge_history(FileProp::C03, &cfg, &ops, (1_000_000 + idx as u64, rej_at as u64), t);
        }
    });
    tally.merge(t2);

    // far from zero: four-frame histories from ticks 2^40+1, 2^52+1, 2^52+2, 2^53-41 with delta patterns (3,4,5), (3000,3001,2999), (1,1,1); tick-level jitter: every step sequence over {1, 2, 3, 5} ticks (scaled by 1 and by 600) of
    // up to JMAX steps, for video (write_video) and audio; catches table builders that summarise
    // (run-length, "constant rate" shortcuts) instead of recording each delta
    let jmax = if ctx.thorough { 7 } else { 5 };
    let jsteps = [1u64, 2, 3, 5];
    let mut jitems = vec![];
    for scale in [1u64, 600] {
        for audio in [false, true] {
            for seq in sequences(jsteps.len(), jmax) {
                if seq.len() >= 2 {
                    jitems.push((scale, audio, seq));
                }
            }
        }
    }
    let n_jitter = jitems.len();
    let tj = par_items(&jitems, ctx.seed, |idx, (scale, audio, seq), t| {
        let cfg = Cfg::basic(VCodec::H264, if *audio { Some(ACodec::Opus) } else { None }, idx % 2 == 0);
        let mut ops = vec![];
        let start = 90_000u64; // 1 s, exact ticks
        let mut tk = start;
        let at = |ticks: u64| ticks as f64 / 90000.0;
        if *audio {
            let (k, _) = video_frame(VCodec::H264, true, true, 1, 4);
            ops.push(Op::WV { pts: T(at(start)), data: Bytes::new(k), key: true });
        }
        for i in 0..=seq.len() {
            if i > 0 {
                tk += jsteps[seq[i - 1]] * scale;
            }
            if *audio {
                ops.push(Op::WA { pts: T(at(tk)), data: Bytes::new(audio_frame(ACodec::Opus, i as u32, 4).0) });
            } else {
                let (d, _) = video_frame(VCodec::H264, i == 0, i == 0, i as u32 + 1, 4);
                ops.push(Op::WV { pts: T(at(tk)), data: Bytes::new(d), key: i == 0 });
            }
        }
        judge_history(FileProp::C03, &cfg, &ops, (3_000_000 + idx as u64, 0), t);
    });
    tally.merge(tj);

    // far from zero: absolute ticks around 2^40, 2^52 (where an f64 holds whole ticks only, so
    // "+0.5 then truncate" style conversions round odd ticks up) and just below 2^53, with small
    // irregular deltas; exact deltas are demanded like everywhere else
    let mut far = vec![];
    for base in [(1u64 << 40) + 1, (1 << 52) + 1, (1 << 52) + 2, (1 << 53) - 41] {
        for pat in [[3u64, 4, 5], [3000, 3001, 2999], [1, 1, 1]] {
            for with_dts in [false, true] {
                far.push((base, pat, with_dts));
            }
        }
    }
    let tf = par_items(&far, ctx.seed, |idx, (base, pat, with_dts), t| {
        let cfg = Cfg::basic(VCodec::H264, None, idx % 2 == 0);
        let mut tk = *base;
        let mut ops = vec![];
        for i in 0..4usize {
            if i > 0 {
                tk += pat[i - 1];
            }
            let secs = tk as f64 / 90000.0;
            if !tick_is_robust(secs) || oracle::refmodel::tick(secs) != tk {
                t.count("skipped_tie_sensitive_timestamps", 1);
                return;
            }
            let (d, _) = video_frame(VCodec::H264, true, true, i as u32 + 1, 4);
            ops.push(if *with_dts { Op::WVD { pts: T(secs), dts: T(secs), data: Bytes::new(d), key: true } } else { Op::WV { pts: T(secs), data: Bytes::new(d), key: true } });
        }
        judge_history(FileProp::C03, &cfg, &ops, (4_000_000 + idx as u64, 0), t);
    });
    tally.merge(tf);

    // the automatic clocks: encode_video / encode_audio keep a running time in seconds; frame
    // lengths that are not a whole number of ticks (1024 samples at 44.1 kHz = 2089.79.. ticks,
    // 33 ms = 2970 ticks exactly, 1 ms) must be rounded per absolute time, not per step
    let mut citems = vec![];
    for rate in [8_000u32, 11_025, 22_050, 32_000, 44_100, 48_000] {
        for samples in [1024u32, 960, 100, 1] {
            for dur_ms in [33u32, 40, 1] {
                for n in [3usize, 12, 60] {
                    citems.push((rate, samples, dur_ms, n));
                }
            }
        }
    }
    let n_conv_items = citems.len();
    let tcv = par_items(&citems, ctx.seed, |idx, &(rate, samples, dur_ms, n), t| {
        for ac in [ACodec::AacLc, ACodec::Opus] {
            let mut cfg = Cfg::basic(VCodec::H264, Some(ac), idx % 2 == 0);
            if let Some(a) = cfg.audio.as_mut() {
                a.rate = rate;
            }
            let mut ops = vec![];
            let (mut cv, mut ca) = (0.0f64, 0.0f64);
            let mut ok = true;
            for i in 0..n {
                if i < 4 {
                    ok &= tick_is_robust(cv);
                    ops.push(Op::EV { data: Bytes::new(video_frame(VCodec::H264, i == 0, i == 0, i as u32 + 1, 4).0), dur_ms });
                    cv += dur_ms as f64 / 1000.0;
                }
                ok &= tick_is_robust(ca);
                ops.push(Op::EA { data: Bytes::new(audio_frame(ac, i as u32, 5).0), samples });
                ca += samples as f64 / rate as f64;
            }
            if !ok {
                t.count("skipped_tie_sensitive_timestamps", 1);
                continue;
            }
            judge_history(FileProp::C03, &cfg, &ops, (5_000_000 + idx as u64, ac.is_aac() as u64), t);
        }
    });
    tally.merge(tcv);
    // automatic clocks with arguments that change from call to call: every sequence of 2..=4 (5)
    // frame durations x every sequence of 2..=3 audio frame lengths. The argument of a call says
    // when the NEXT frame starts; the last call's argument is not an interval between submitted
    // timestamps, so the open-ended last sample repeats the preceding interval like everywhere else
    let durs = [20u32, 33, 40, 1000];
    let lens = [960u32, 1024, 480, 2048];
    let seqs = |alpha: &[u32], lo: usize, hi: usize| -> Vec<Vec<u32>> {
        let mut out = vec![];
        let mut frontier: Vec<Vec<u32>> = vec![vec![]];
        for n in 1..=hi {
            frontier = frontier.iter().flat_map(|q| alpha.iter().map(move |&a| { let mut r = q.clone(); r.push(a); r })).collect();
            if n >= lo {
                out.extend(frontier.iter().cloned());
            }
        }
        out
    };
    let vseqs = seqs(&durs, 2, if ctx.thorough { 5 } else { 4 });
    let aseqs = seqs(&lens, 2, 3);
    let n_vary_items = vseqs.len() * aseqs.len();
    let tvary = par_items(&vseqs, ctx.seed, |idx, vs, t| {
        for (ai, as_) in aseqs.iter().enumerate() {
            let ac = if (idx + ai) % 2 == 0 { ACodec::Opus } else { ACodec::AacLc };
            let cfg = Cfg::basic(VCodec::H264, Some(ac), (idx + ai) % 3 == 0);
            let mut ops = vec![];
            let (mut cv, mut ca) = (0.0f64, 0.0f64);
            let mut ok = true;
            for i in 0..vs.len().max(as_.len()) {
                if let Some(&d) = vs.get(i) {
                    ok &= tick_is_robust(cv);
                    ops.push(Op::EV { data: Bytes::new(video_frame(VCodec::H264, i == 0, i == 0, i as u32 + 1, 4).0), dur_ms: d });
                    cv += d as f64 / 1000.0;
                }
                if let Some(&n) = as_.get(i) {
                    ok &= tick_is_robust(ca);
                    ops.push(Op::EA { data: Bytes::new(audio_frame(ac, i as u32, 5).0), samples: n });
                    ca += n as f64 / 48000.0;
                }
            }
            if !ok {
                t.count("skipped_tie_sensitive_timestamps", 1);
                continue;
            }
            judge_history(FileProp::C03, &cfg, &ops, (5_500_000 + idx as u64, ai as u64), t);
        }
    });
    tally.merge(tvary);

    // long deterministic traces for the no-drift clause (single executions, not samples of a space)
    let long_n = if ctx.thorough { 100_000 } else { 20_000 };
    let mut long = vec![];
    for (name, num, den) in [("29.97fps", 1001.0, 30000.0), ("23.976fps", 1001.0, 24000.0)] {
        long.push((name, num, den));
    }
    let t3 = par_items(&long, ctx.seed, |idx, (name, num, den), t| {
        let cfg = Cfg::basic(VCodec::H264, Some(ACodec::AacLc), false);
        let mut ops = Vec::with_capacity(long_n * 3);
        let (k, _) = video_frame(VCodec::H264, true, true, 1, 4);
        let (dl, _) = video_frame(VCodec::H264, false, false, 2, 4);
        let (kb, db) = (Bytes::new(k), Bytes::new(dl));
        let (a, _) = audio_frame(ACodec::AacLc, 7, 6);
        let ab = Bytes::new(a);
        for i in 0..long_n {
            // 23.976 fps from 0 lands exactly on x.5 ticks every fourth frame, where the result
            // depends on tie handling (any is fine by the statement); a 0.1-tick phase avoids ties
            let tt = i as f64 * num / den + 0.1 * TICK;
            if !tick_is_robust(tt) {
                t.count("skipped_tie_sensitive_timestamps", 1);
                continue;
            }
            ops.push(Op::WV { pts: T(tt), data: if i == 0 { kb.clone() } else { db.clone() }, key: i == 0 });
            // two AAC frames at 44.1 kHz per video frame
            for j in 0..2 {
                let at = (2 * i + j) as f64 * 1024.0 / 44100.0;
                if tick_is_robust(at) && at >= 0.1 * TICK {
                    ops.push(Op::WA { pts: T(at), data: ab.clone() });
                }
            }
        }
        let ex = run_finished(&cfg, &ops);
        t.evaluations += 1;
        t.states += 1;
        t.transitions += ex.results.len() as u64;
        t.count("long_trace_frames", ex.results.len() as u64);
        if !ex.results.last().map(|r| r.is_ok()).unwrap_or(false) {
            t.count("finish_rejected", 1);
            return;
        }
        let e = expect_from(&cfg, &ops, &ex.results);
        let m = parse_movie(&ex.bytes, "prog");
        t.traces += 1;
        t.outcome(outcome_hash(&ex));
        for (sig, detail) in fileck::c03(&m, &cfg, &e) {
            t.violation(&format!("C03/long/{sig}"), (2_000_000 + idx as u64, 0), || format!("long trace {name} ({long_n} frames): {detail}"), || json!({"engine": "E1-long", "trace": name, "frames": long_n}));
        }
        let _ = (case_json, brief_ops);
    });
    tally.merge(t3);

    finish(
        ctx,
        &tally,
        Meta {
            level: "model_checking",
            rule: format!(
                "every video DTS sequence of <= {vmax} frames over the step alphabet {{1/30, 1001/30000, 1001/24000, 1 tick, 0.4 tick, 7.3 s, 2^31 ticks, 2^31-1800 ticks, 2^31+1800 ticks}} from starts {{0, 0.5, 36000 s}}, via write_video and via write_video_with_dts with every composition-offset vector over {{0, -2/30 s, +1/30 s, +1001/24000 s (off the tick grid)}} plus an overflowing offset and the two extremes of the 32-bit field (-2^31, 2^31-1 ticks) at each single position, on H.264 and VP9 ({n_video_items} sequence items); every audio PTS sequence of <= {amax} frames over steps {{0, 1024/48000, 1024/44100, 0.02}} x start lead {{0, 0.01}} x {{AAC, Opus}} ({n_audio_items} items), each also with a refused audio call (unusable payload) between any two accepted frames; rejected writes are kept in the history and the oracle is applied to the accepted subsequence; far from zero: four-frame histories from ticks 2^40+1, 2^52+1, 2^52+2, 2^53-41 with delta patterns (3,4,5), (3000,3001,2999), (1,1,1); tick-level jitter: every step sequence of 2..{jmax} steps over {{1, 2, 3, 5}} ticks x scale {{1, 600}} for video and for audio ({n_jitter} items); automatic clocks: encode_video x encode_audio histories over 6 sample rates x frame lengths {{1024, 960, 100, 1}} x frame durations {{33, 40, 1 ms}} x {{3, 12, 60}} frames x {{AAC, Opus}} ({n_conv_items} items), and every sequence of 2..4 (5) encode_video durations over {{20, 33, 40, 1000 ms}} x every sequence of 2..3 encode_audio lengths over {{960, 1024, 480, 2048}} ({n_vary_items} items); plus two long single traces ({long_n} video frames at 29.97/23.976 fps with {} AAC frames at 44.1 kHz) for the no-drift clause. Oracle: stts deltas = differences of exactly rounded absolute timestamps, last-sample rule, ctts presence/values, mdhd duration = sum, no drift at any sample. Distinct by (result vector, output bytes).",
                2 * long_n
            ),
            bound: format!("video <= {vmax} frames, audio <= {amax} frames; long traces are single deterministic executions"),
            exhaustive: true,
            assumptions: vec![
                "timestamps whose tick depends on tie rounding (within 1e-6 of .5) are skipped and counted".into(),
                "the independent reader is trusted".into(),
            ],
            extra: json!({}),
        },
    )
}
