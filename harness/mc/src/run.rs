//! Executes operation histories on the real muxide objects and reports what the public API shows.

use muxide::api::{AacProfile, AudioCodec, Metadata, Muxer, MuxerBuilder, MuxerError, MuxerStats, VideoCodec};
use oracle::frames::{ACodec, VCodec};
use oracle::model::{Cfg, Op, Res, Stats, Viol, T};
use oracle::report::guarded;
use std::cell::RefCell;
use std::io::{self, Write};
use std::rc::Rc;

#[derive(Default, Debug, Clone)]
pub struct SinkState {
    pub bytes: Vec<u8>,
    /// (index of the API call in progress, bytes accepted)
    pub writes: Vec<(u32, u32)>,
    pub cur_op: u32,
    pub flushes: u32,
}

/// Recording sink: accepts everything and stamps every write with the API call in progress.
#[derive(Clone, Default)]
pub struct RecSink(pub Rc<RefCell<SinkState>>);

impl Write for RecSink {
    fn write(&mut self, buf: &[u8]) -> io::Result<usize> {
        let mut s = self.0.borrow_mut();
        s.bytes.extend_from_slice(buf);
        let op = s.cur_op;
        s.writes.push((op, buf.len() as u32));
        Ok(buf.len())
    }
    fn flush(&mut self) -> io::Result<()> {
        self.0.borrow_mut().flushes += 1;
        Ok(())
    }
}

pub fn vcodec(c: VCodec) -> VideoCodec {
    match c {
        VCodec::H264 => VideoCodec::H264,
        VCodec::H265 => VideoCodec::H265,
        VCodec::Av1 => VideoCodec::Av1,
        VCodec::Vp9 => VideoCodec::Vp9,
    }
}

pub fn acodec(c: ACodec) -> AudioCodec {
    match c {
        ACodec::AacLc => AudioCodec::Aac(AacProfile::Lc),
        ACodec::AacMain => AudioCodec::Aac(AacProfile::Main),
        ACodec::AacSsr => AudioCodec::Aac(AacProfile::Ssr),
        ACodec::AacLtp => AudioCodec::Aac(AacProfile::Ltp),
        ACodec::AacHe => AudioCodec::Aac(AacProfile::He),
        ACodec::AacHev2 => AudioCodec::Aac(AacProfile::Hev2),
        ACodec::Opus => AudioCodec::Opus,
    }
}

pub fn metadata(m: &oracle::model::Meta) -> Metadata {
    let mut md = Metadata::new();
    if let Some(t) = &m.title {
        md = md.with_title(t.clone());
    }
    if let Some(t) = m.time {
        md = md.with_creation_time(t);
    }
    if let Some(l) = &m.lang {
        md = md.with_language(l.clone());
    }
    md
}

pub fn builder<W: Write>(cfg: &Cfg, sink: W) -> MuxerBuilder<W> {
    let mut b = MuxerBuilder::new(sink).video(vcodec(cfg.codec), cfg.width, cfg.height, 30.0);
    if let Some(d) = &cfg.audio_first {
        // an earlier selection: the later call replaces it, AudioCodec::None withdraws it
        b = b.audio(acodec(d.codec), d.rate, d.channels);
        if cfg.audio.is_none() {
            b = b.audio(muxide::api::AudioCodec::None, 0, 0);
        }
    }
    if let Some(a) = &cfg.audio {
        b = b.audio(acodec(a.codec), a.rate, a.channels);
    }
    if let Some(m) = &cfg.meta {
        b = b.with_metadata(metadata(m));
    }
    b.with_fast_start(cfg.fast_start)
}

pub fn classify(e: &MuxerError) -> Viol {
    match e {
        MuxerError::MissingVideoConfig => Viol::MissingVideoConfig,
        MuxerError::Io(err) => {
            if err.kind() == io::ErrorKind::InvalidData && err.to_string().contains("duration overflow") {
                Viol::GapTooLarge
            } else if err.to_string().contains("already finalised") {
                // the container writer's own "finished" refusal (seen after a failed finish)
                Viol::Finished
            } else {
                Viol::Io
            }
        }
        MuxerError::AlreadyFinished => Viol::Finished,
        MuxerError::NegativeVideoPts { .. } | MuxerError::NegativeVideoDts { .. } | MuxerError::NegativeAudioPts { .. } => Viol::Negative,
        MuxerError::InvalidVideoPts { .. } | MuxerError::InvalidVideoDts { .. } | MuxerError::InvalidAudioPts { .. } => Viol::NonFinite,
        MuxerError::AudioNotConfigured => Viol::AudioNotConfigured,
        MuxerError::EmptyAudioFrame { .. } | MuxerError::EmptyVideoFrame { .. } => Viol::EmptyData,
        MuxerError::NonIncreasingVideoPts { .. } | MuxerError::NonIncreasingDts { .. } => Viol::VideoOrder,
        MuxerError::DecreasingAudioPts { .. } => Viol::AudioOrder,
        MuxerError::AudioBeforeFirstVideo { .. } => Viol::AudioBeforeFirstVideo,
        MuxerError::FirstVideoFrameMustBeKeyframe => Viol::FirstNotKey,
        MuxerError::FirstVideoFrameMissingSpsPps | MuxerError::FirstAv1FrameMissingSequenceHeader | MuxerError::FirstVp9FrameMissingSequenceHeader => Viol::FirstLacksConfig,
        MuxerError::InvalidAdts { .. } | MuxerError::InvalidAdtsDetailed { .. } | MuxerError::InvalidOpusPacket { .. } => Viol::BadAudioFraming,
    }
}

pub fn stats(s: &MuxerStats) -> Stats {
    Stats { video_frames: s.video_frames, audio_frames: s.audio_frames, duration_secs: T(s.duration_secs), bytes_written: s.bytes_written }
}

fn err_res(e: MuxerError) -> Res {
    // the hex dump inside ADTS errors is long; keep the Debug text bounded
    let mut s = format!("{e:?}");
    if s.len() > 300 {
        s.truncate(300);
    }
    Res::Err(classify(&e), s)
}

fn unit(r: Result<(), MuxerError>) -> Res {
    match r {
        Ok(()) => Res::Ok,
        Err(e) => err_res(e),
    }
}

fn with_stats(r: Result<MuxerStats, MuxerError>) -> Res {
    match r {
        Ok(s) => Res::OkStats(stats(&s)),
        Err(e) => err_res(e),
    }
}

/// Apply one operation; `m` becomes None when a consuming call took the muxer.
pub fn apply<W: Write>(m: &mut Option<Muxer<W>>, op: &Op) -> Res {
    if m.is_none() {
        return Res::NotRun;
    }
    let r = guarded(|| match op {
        Op::WV { pts, data, key } => unit(m.as_mut().unwrap().write_video(pts.0, data, *key)),
        Op::WVD { pts, dts, data, key } => unit(m.as_mut().unwrap().write_video_with_dts(pts.0, dts.0, data, *key)),
        Op::WA { pts, data } => unit(m.as_mut().unwrap().write_audio(pts.0, data)),
        Op::EV { data, dur_ms } => unit(m.as_mut().unwrap().encode_video(data, *dur_ms)),
        Op::EA { data, samples } => unit(m.as_mut().unwrap().encode_audio(data, *samples)),
        Op::FinishInPlace => unit(m.as_mut().unwrap().finish_in_place()),
        Op::FinishInPlaceStats => with_stats(m.as_mut().unwrap().finish_in_place_with_stats()),
        Op::Finish => unit(m.take().unwrap().finish()),
        Op::FinishStats => with_stats(m.take().unwrap().finish_with_stats()),
        Op::Flush => unit(m.take().unwrap().flush()),
    });
    match r {
        Ok(res) => res,
        Err(msg) => {
            *m = None; // state after an unwind is unspecified: stop using the object
            Res::Panic(msg)
        }
    }
}

#[derive(Debug, Clone)]
pub struct Exec {
    pub results: Vec<Res>,
    pub bytes: Vec<u8>,
    pub writes: Vec<(u32, u32)>,
    pub build_err: Option<String>,
}

impl Exec {
    pub fn last_stats(&self) -> Option<Stats> {
        self.results.iter().rev().find_map(|r| if let Res::OkStats(s) = r { Some(*s) } else { None })
    }
    pub fn panicked(&self) -> Option<(usize, &str)> {
        self.results.iter().enumerate().find_map(|(i, r)| if let Res::Panic(m) = r { Some((i, m.as_str())) } else { None })
    }
}

/// Build a fresh muxer over a recording sink and run the history.
pub fn run(cfg: &Cfg, ops: &[Op]) -> Exec {
    let sink = RecSink::default();
    let state = sink.0.clone();
    let built = guarded(|| builder(cfg, sink).build());
    let mut m = match built {
        Ok(Ok(m)) => Some(m),
        Ok(Err(e)) => {
            return Exec { results: vec![], bytes: vec![], writes: vec![], build_err: Some(format!("{e:?}")) };
        }
        Err(p) => return Exec { results: vec![], bytes: vec![], writes: vec![], build_err: Some(format!("panic: {p}")) },
    };
    let mut results = Vec::with_capacity(ops.len());
    for (i, op) in ops.iter().enumerate() {
        state.borrow_mut().cur_op = i as u32;
        results.push(apply(&mut m, op));
    }
    drop(m);
    let st = std::mem::take(&mut *state.borrow_mut());
    Exec { results, bytes: st.bytes, writes: st.writes, build_err: None }
}

/// Run `ops` then a finishing call; returns the execution (finish result is the last one).
pub fn run_finished(cfg: &Cfg, ops: &[Op]) -> Exec {
    let mut v = ops.to_vec();
    v.push(Op::FinishInPlaceStats);
    run(cfg, &v)
}
