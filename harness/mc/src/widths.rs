//! C16 - no numeric field is silently truncated; declared durations match the tables.
//! Boundary enumeration: for every narrowing site the inputs {below, at, above} its boundary, in
//! combination with the neighbouring sites the same history can reach.

use crate::frag::{self, FCfg, FOp};
use crate::run::run;
use oracle::fileck::{expect_from, Expect};
use oracle::frames::{self, annexb, ACodec, VCodec};
use oracle::model::{brief_ops, AudioCfg, Bytes, Cfg, Op, Res, T};
use oracle::reader::{parse_movie, parse_segment, CodecCfg, Movie};
use oracle::refmodel::{tick, tick_is_robust};
use oracle::report::{finish, guarded, par_items, Ctx, Fnv, Meta, Tally};
use serde_json::{json, Value};

type Issues = Vec<(String, String)>;

fn secs(t: u64) -> f64 {
    t as f64 / 90000.0
}

/// exact-value oracle for a finished progressive file (no "fits in 32 bits" escape hatch)
pub fn exact_fields(d: &[u8], m: &Movie, cfg: &Cfg, e: &Expect) -> Issues {
    let mut out = vec![];
    let mut track_dur_ticks: Vec<u128> = vec![];
    for (t, exp, what) in [(m.video(), &e.video, "video"), (m.audio(), &e.audio, "audio")] {
        let Some(t) = t else { continue };
        let Ok(s) = t.samples() else {
            out.push((format!("{what}/tables-unexpandable"), String::new()));
            continue;
        };
        if s.len() != exp.len() {
            out.push((format!("{what}/sample-count"), format!("{} vs {}", s.len(), exp.len())));
            continue;
        }
        let n = s.len();
        let mut sum: u128 = 0;
        for i in 0..n {
            let want: Option<u128> = if i + 1 < n {
                Some((exp[i + 1].dts - exp[i].dts) as u128)
            } else if n >= 2 {
                Some((exp[n - 1].dts - exp[n - 2].dts) as u128)
            } else {
                None
            };
            if let Some(w) = want {
                if s[i].dur as u128 != w {
                    out.push((format!("{what}/sample-duration"), format!("sample {i}: stts says {}, the submitted decode times differ by {w}", s[i].dur)));
                }
                sum += w;
            } else {
                sum += s[i].dur as u128;
            }
            let cts = exp[i].pts as i128 - exp[i].dts as i128;
            if s[i].cts as i128 != cts {
                out.push((format!("{what}/composition-offset"), format!("sample {i}: ctts says {}, pts-dts = {cts}", s[i].cts)));
            }
            if s[i].size as usize != exp[i].bytes.len() {
                out.push((format!("{what}/sample-size"), format!("sample {i}: stsz {} vs {} bytes stored", s[i].size, exp[i].bytes.len())));
            } else {
                // the chunk offset is a numeric field like the others: it must be the position at
                // which this sample's bytes really are
                let (a, b) = (s[i].offset as usize, s[i].offset as usize + s[i].size as usize);
                if b > d.len() || d[a..b] != exp[i].bytes[..] {
                    out.push((format!("{what}/chunk-offset"), format!("sample {i}: the table says offset {a}, the sample's bytes are not there")));
                }
            }
        }
        if t.mdhd.duration as u128 != sum {
            out.push((format!("{what}/mdhd-duration"), format!("mdhd duration {} but the sample durations sum to {sum}", t.mdhd.duration)));
        }
        track_dur_ticks.push(sum);
        // track header duration (movie timescale) must be floor/round/ceil of the media duration
        let ms_lo = sum * 1000 / 90000;
        let ms_hi = (sum * 1000 + 89999) / 90000;
        let td = t.tkhd.duration as u128;
        if !(td >= ms_lo && td <= ms_hi) {
            let sig = if t.tkhd.duration == 0 && t.tkhd.size == 96 { format!("{what}/tkhd-duration-zero") } else { format!("{what}/tkhd-duration") };
            out.push((sig, format!("tkhd duration {} but the track lasts {sum} ticks = {ms_lo}..{ms_hi} ms", t.tkhd.duration)));
        }
    }
    if let Some(mv) = &m.mvhd {
        let ok = track_dur_ticks.iter().any(|&s| {
            let lo = s * 1000 / 90000;
            let hi = (s * 1000 + 89999) / 90000;
            (mv.duration as u128) >= lo && (mv.duration as u128) <= hi
        });
        if !ok && !track_dur_ticks.is_empty() {
            out.push(("mvhd-duration".into(), format!("mvhd duration {} ms matches no track (track durations in ticks: {track_dur_ticks:?})", mv.duration)));
        }
    }
    if let Some(en) = m.video().and_then(|t| t.entry.as_ref()) {
        if (en.width as u32, en.height as u32) != (cfg.width, cfg.height) {
            out.push(("stsd-dimensions".into(), format!("sample entry {}x{}, configured {}x{}", en.width, en.height, cfg.width, cfg.height)));
        }
        if let Some(t) = m.video() {
            let (w, h) = ((cfg.width as u64) << 16, (cfg.height as u64) << 16);
            // the tkhd of progressive files is mis-laid-out (C19 finding); compare only when the
            // values could not even be represented
            if (cfg.width > 65535 || cfg.height > 65535) && (t.tkhd.width_fixed as u64 != w || t.tkhd.height_fixed as u64 != h) {
                out.push(("tkhd-dimensions".into(), format!("tkhd {:#x}x{:#x} for {}x{}", t.tkhd.width_fixed, t.tkhd.height_fixed, cfg.width, cfg.height)));
            }
        }
    }
    if let (Some(en), Some(a)) = (m.audio().and_then(|t| t.entry.as_ref()), cfg.audio.as_ref()) {
        if en.channels != a.channels {
            out.push(("audio-channelcount".into(), format!("{} vs {}", en.channels, a.channels)));
        }
        let want = if a.codec.is_aac() { (a.rate as u64) << 16 } else { 48000u64 << 16 };
        if en.rate_fixed as u64 != want {
            let sig = if a.rate >= 65536 { "audio-samplerate-field/rate>=65536" } else { "audio-samplerate-field" };
            out.push((sig.into(), format!("samplerate field {:#x} for {} Hz", en.rate_fixed, a.rate)));
        }
    }
    let _ = d;
    out
}

#[derive(Clone, Debug)]
enum Case {
    Prog { name: String, cfg: Cfg, ops: Vec<Op> },
    /// `dup`: a second, small parameter set of every type follows the first ones
    ParamSets { codec: VCodec, sps: usize, pps: usize, vps: usize, dup: bool },
    Frag { name: String, cfg: FCfg, hist: Vec<FOp> },
    Init { cfg: FCfg },
    /// fragmented builder with exactly one oversized parameter set (which: 0 = VPS, 1 = SPS, 2 = PPS)
    InitOne { codec: VCodec, which: u8, len: usize },
}

fn key(codec: VCodec, tag: u32) -> Bytes {
    Bytes::new(frames::video_frame(codec, true, true, tag, 5).0)
}
fn delta(codec: VCodec, tag: u32) -> Bytes {
    Bytes::new(frames::video_frame(codec, false, false, tag, 5).0)
}

fn gaps() -> Vec<u64> {
    vec![3000, (1 << 31) - 1, 1 << 31, (1 << 31) + 1, (1u64 << 32) - 2, (1u64 << 32) - 1, 1u64 << 32, (1u64 << 32) + 1]
}

fn cases() -> Vec<Case> {
    let mut v = vec![];
    let g = gaps();
    // Family A: video decode-time gaps (2 and 3 frames) x composition offset of the second frame
    let ctss: Vec<i64> = vec![0, (1 << 31) - 1, 1 << 31, (1 << 31) + 1, -((1 << 31) - 1), -(1 << 31), -((1 << 31) + 1)];
    for &start in &[0u64, 1 << 33] {
        for &g1 in &g {
            for &c in &ctss {
                for g2 in std::iter::once(None).chain(g.iter().map(|&x| Some(x))) {
                    let d0 = start;
                    let d1 = start + g1;
                    let p1 = d1 as i128 + c as i128;
                    if p1 < 0 {
                        continue;
                    }
                    let mut ts = vec![(d0, d0), (p1 as u64, d1)];
                    if let Some(g2) = g2 {
                        ts.push((d1 + g2, d1 + g2));
                    }
                    if !ts.iter().all(|&(p, d)| tick_is_robust(secs(p)) && tick_is_robust(secs(d)) && tick(secs(p)) == p && tick(secs(d)) == d) {
                        continue;
                    }
                    let cfg = Cfg::basic(VCodec::H264, if g1 % 2 == 0 { None } else { Some(ACodec::AacLc) }, c % 2 == 0);
                    let ops = ts.iter().enumerate().map(|(i, &(p, d))| Op::WVD { pts: T(secs(p)), dts: T(secs(d)), data: if i == 0 { key(VCodec::H264, 1) } else { delta(VCodec::H264, i as u32 + 1) }, key: i == 0 }).collect();
                    v.push(Case::Prog { name: format!("video-gaps/start{start}/g1={g1}/cts={c}/g2={g2:?}"), cfg, ops });
                }
            }
        }
    }
    // Family A3: recordings whose total duration is a whole number of milliseconds (the movie and
    // track header durations are then exact: floor = ceil), every total from 1000 to 1100 ms and a
    // ladder beyond; a conversion through floating-point seconds is one ms short for some of them
    for ms in (1000u64..=1100).chain([2046, 4093, 8040, 16300, 32300, 64100, 128200, 1_000_001, 40_000_003]) {
        // two frames: total = 2 x gap = 90 x ms ticks
        let gap = 45 * ms;
        let ts = [(0u64, 0u64), (gap, gap)];
        let cfg = Cfg::basic(VCodec::H264, if ms % 3 == 0 { Some(ACodec::AacLc) } else { None }, ms % 2 == 0);
        let ops = ts.iter().enumerate().map(|(i, &(p, d))| Op::WVD { pts: T(secs(p)), dts: T(secs(d)), data: if i == 0 { key(VCodec::H264, 1) } else { delta(VCodec::H264, 2) }, key: i == 0 }).collect();
        v.push(Case::Prog { name: format!("whole-ms-total/{ms}ms"), cfg, ops });
    }
    // Family A2: composition offset of the FIRST frame (and of a lone frame)
    for &c in &ctss {
        for two in [false, true] {
            let d0: u64 = 1 << 33;
            let p0 = d0 as i128 + c as i128;
            let ts = if two { vec![(p0 as u64, d0), (d0 + 3000, d0 + 3000)] } else { vec![(p0 as u64, d0)] };
            if !ts.iter().all(|&(p, d)| tick_is_robust(secs(p)) && tick_is_robust(secs(d)) && tick(secs(p)) == p && tick(secs(d)) == d) {
                continue;
            }
            let cfg = Cfg::basic(VCodec::H265, if two { Some(ACodec::Opus) } else { None }, c % 2 == 0);
            let ops = ts.iter().enumerate().map(|(i, &(p, d))| Op::WVD { pts: T(secs(p)), dts: T(secs(d)), data: if i == 0 { key(VCodec::H265, 1) } else { delta(VCodec::H265, 2) }, key: i == 0 }).collect();
            v.push(Case::Prog { name: format!("first-frame-cts/cts={c}/frames={}", ts.len()), cfg, ops });
        }
    }
    // Family B: audio gaps after one video frame. The audio starts with the video, 3000 ticks or
    // one second after it, or (vshape 1) between the presentation and the later decode time of a
    // first video frame with a negative composition offset: each track's 32-bit total is its own
    for &g1 in &g {
        for g2 in std::iter::once(None).chain(g.iter().map(|&x| Some(x))) {
            for ac in [ACodec::AacLc, ACodec::Opus] {
                for (vshape, astart) in [(0u8, 0u64), (0, 3000), (0, 90_000), (1, 45_000)] {
                    if astart != 0 && ac == ACodec::Opus && g2.is_some() {
                        continue;
                    }
                    let cfg = Cfg::basic(VCodec::Vp9, Some(ac), g1 % 2 == 1);
                    let mut ops = if vshape == 0 { vec![Op::WV { pts: T(0.0), data: key(VCodec::Vp9, 1), key: true }] } else { vec![Op::WVD { pts: T(0.0), dts: T(1.0), data: key(VCodec::Vp9, 1), key: true }] };
                    let mut t = astart;
                    let mut times = vec![t];
                    t += g1;
                    times.push(t);
                    if let Some(g2) = g2 {
                        t += g2;
                        times.push(t);
                    }
                    if !times.iter().all(|&x| tick(secs(x)) == x && tick_is_robust(secs(x))) {
                        continue;
                    }
                    for (i, &x) in times.iter().enumerate() {
                        ops.push(Op::WA { pts: T(secs(x)), data: Bytes::new(frames::audio_frame(ac, i as u32, 6).0) });
                    }
                    if vshape == 0 && astart == 0 {
                        // the same history with every audio frame followed by a second one on the same
                        // tick (audio timestamps need only be non-decreasing): zero-length intervals
                        // are intervals like any other, and the totals stay what the timestamps imply
                        let mut ops3 = vec![ops[0].clone()];
                        for (i, &x) in times.iter().enumerate() {
                            for rep in 0..2u32 {
                                ops3.push(Op::WA { pts: T(secs(x)), data: Bytes::new(frames::audio_frame(ac, 2 * i as u32 + rep, 6 + rep as usize).0) });
                            }
                        }
                        v.push(Case::Prog { name: format!("audio-gaps/{ac:?}/doubled/g1={g1}/g2={g2:?}"), cfg: cfg.clone(), ops: ops3 });
                    }
                    if vshape == 0 && astart == 0 {
                        // the same history ending in an audio call that is refused for its payload
                        // (one second on): the last accepted sample keeps the duration it had
                        let mut ops2 = ops.clone();
                        ops2.push(Op::WA { pts: T(secs(t) + 1.0), data: Bytes::new(vec![0x03]) });
                        v.push(Case::Prog { name: format!("audio-gaps/{ac:?}/refused-last/g1={g1}/g2={g2:?}"), cfg: cfg.clone(), ops: ops2 });
                    }
                    v.push(Case::Prog { name: format!("audio-gaps/{ac:?}/v{vshape}/start={astart}/g1={g1}/g2={g2:?}"), cfg, ops });
                }
            }
        }
    }
    // Family C: parameter-set lengths around 2^16
    let lens = [65534usize, 65535, 65536, 65537];
    for codec in [VCodec::H264, VCodec::H265] {
        for &s in &lens {
            for &p in &[4usize, 65535, 65536] {
                for &vl in &[7usize, 65536] {
                    if codec == VCodec::H264 && vl != 7 {
                        continue;
                    }
                    v.push(Case::ParamSets { codec, sps: s, pps: p, vps: vl, dup: false });
                    v.push(Case::ParamSets { codec, sps: s, pps: p, vps: vl, dup: true });
                }
            }
        }
    }
    // Family D: dimensions around 2^16, Family E: audio rates / channel counts
    for &w in &[65535u32, 65536, 65537, 131072, u32::MAX] {
        for &h in &[480u32, 65535, 65536] {
            for codec in frames::VCODECS {
                let mut cfg = Cfg::basic(codec, None, w % 2 == 0);
                cfg.width = w;
                cfg.height = h;
                let ops = vec![Op::WV { pts: T(0.0), data: key(codec, 1), key: true }];
                v.push(Case::Prog { name: format!("dimensions/{codec:?}/{w}x{h}"), cfg: cfg.clone(), ops });
                v.push(Case::Prog { name: format!("dimensions/{codec:?}/{w}x{h}/no-frames"), cfg, ops: vec![] });
            }
        }
    }
    for &rate in &[65535u32, 65536, 88200, 96000, u32::MAX] {
        for &ch in &[1u16, 6, 255, 256, 65535] {
            for ac in [ACodec::AacLc, ACodec::Opus] {
                let mut cfg = Cfg::basic(VCodec::H264, Some(ac), true);
                cfg.audio = Some(AudioCfg { codec: ac, rate, channels: ch });
                v.push(Case::Prog { name: format!("audio-config/{ac:?}/{rate}Hz/{ch}ch"), cfg, ops: vec![Op::WV { pts: T(0.0), data: key(VCodec::H264, 1), key: true }] });
            }
        }
    }
    // Family F: large absolute timestamps (relative timing must stay exact or be rejected).
    // Between 2^52 and 2^53 ticks every f64 tick value is a whole number and adding 0.5 to it is
    // not representable; odd and even tick values, odd and even steps, through every entry point.
    // Every time stays below 2^53 ticks (3170 years): beyond that the documented conversion
    // round(seconds x 90000) is itself only defined up to the f64 product's 2-tick spacing
    for &base in &[(1u64 << 40), (1u64 << 40) + 1, (1u64 << 52), (1u64 << 52) + 1, 3 * (1u64 << 51) + 7, (1u64 << 53) - (1u64 << 33) - 9009] {
        for &step in &[3000u64, 3003, 1, 1501, (1 << 31) - 1, 1 << 31] {
            for shape in 0..3u8 {
                // the times are snapped to what a seconds value can express at this magnitude
                let ss: Vec<f64> = [base, base + step, base + 2 * step].iter().map(|&x| secs(x)).collect();
                let ts: Vec<u64> = ss.iter().map(|&x| tick(x)).collect();
                if !ss.iter().all(|&x| tick_is_robust(x)) || !(ts[0] < ts[1] && ts[1] < ts[2]) {
                    continue;
                }
                let (codec, audio) = match shape {
                    0 => (VCodec::Av1, None),
                    1 => (VCodec::H264, None),
                    _ => (VCodec::Vp9, Some(ACodec::Opus)),
                };
                let cfg = Cfg::basic(codec, audio, step % 2 == 0);
                let mut ops: Vec<Op> = vec![];
                for (i, &x) in ss.iter().enumerate() {
                    let data = if i == 0 { key(codec, 1) } else { delta(codec, 2) };
                    match shape {
                        // reordered: the middle frame is presented one step late (pts of frame 1 = time of frame 2)
                        1 => ops.push(Op::WVD { pts: T(if i == 1 { ss[2] } else if i == 2 { ss[1] } else { x }), dts: T(x), data, key: i == 0 }),
                        _ => ops.push(Op::WV { pts: T(x), data, key: i == 0 }),
                    }
                    if shape == 2 {
                        ops.push(Op::WA { pts: T(x), data: Bytes::new(frames::audio_frame(ACodec::Opus, i as u32, 6).0) });
                    }
                }
                v.push(Case::Prog { name: format!("large-timestamps/base={base}/step={step}/shape={shape}"), cfg, ops });
            }
        }
    }
    for &huge in &[1e15f64, 1e300, f64::MAX] {
        let cfg = Cfg::basic(VCodec::H264, Some(ACodec::AacLc), true);
        let ops = vec![Op::WV { pts: T(1.0), data: key(VCodec::H264, 1), key: true }, Op::WV { pts: T(huge), data: delta(VCodec::H264, 2), key: false }, Op::WA { pts: T(huge), data: Bytes::new(frames::audio_frame(ACodec::AacLc, 1, 5).0) }];
        v.push(Case::Prog { name: format!("huge-timestamp/{huge:e}"), cfg, ops });
    }
    // Family G: fragmented gaps, composition offsets, dimensions
    for &g1 in &[(1u64 << 32) - 1, 1 << 32, 1 << 33] {
        for &c in &[0i64, (1 << 31) - 1, 1 << 31, -(1 << 31), -((1 << 31) + 1)] {
            let cfg = FCfg { codec: VCodec::H264, via_builder: true, timescale: 90000, fragment_ms: 2000, start_dts: 0, width: 640, height: 480, ps_len: 10 };
            let base = 1u64 << 34;
            let w = |p: u64, d: u64, tag: u32| FOp::Write { pts: p, dts: d, data: oracle::model::hex(&frames::body(tag, 5)), sync: tag == 1 };
            let p1 = (base + g1) as i128 + c as i128;
            let hist = vec![w(base, base, 1), w(p1 as u64, base + g1, 2), w(base + g1 + 3000, base + g1 + 3000, 3), FOp::Flush];
            v.push(Case::Frag { name: format!("frag-gap/g1={g1}/cts={c}"), cfg, hist });
        }
    }
    for &w in &[65535u32, 65536, 70000] {
        for via in [true, false] {
            for codec in frames::VCODECS {
                v.push(Case::Init { cfg: FCfg { codec, via_builder: via, timescale: 90000, fragment_ms: 2000, start_dts: 0, width: w, height: 480, ps_len: 8 } });
            }
        }
    }
    for &ps in &[65535usize, 65536, 70000] {
        for via in [true, false] {
            for codec in [VCodec::H264, VCodec::H265] {
                v.push(Case::Init { cfg: FCfg { codec, via_builder: via, timescale: 90000, fragment_ms: 2000, start_dts: 0, width: 640, height: 480, ps_len: ps } });
            }
        }
    }
    // one parameter set at a time around 2^16 (the others ordinary), through the builder
    for &len in &[65535usize, 65536, 65537, 70000] {
        for which in 0..3u8 {
            for codec in [VCodec::H264, VCodec::H265] {
                if codec == VCodec::H264 && which == 0 {
                    continue;
                }
                v.push(Case::InitOne { codec, which, len });
            }
        }
    }
    v
}

fn judge(c: &Case, order: (u64, u64), t: &mut Tally) {
    t.evaluations += 1;
    match c {
        Case::Prog { name, cfg, ops } => {
            let mut all = ops.clone();
            all.push(Op::FinishInPlaceStats);
            let ex = run(cfg, &all);
            let case = || json!({"engine": "E2-c16-prog", "name": name, "cfg": cfg, "ops": ops});
            if let Some((i, m)) = ex.panicked() {
                t.violation("C16/prog/panic", order, || format!("{name}: call {i} panicked: {m}"), case);
                return;
            }
            let mut h = Fnv::new();
            for r in &ex.results {
                h.str(&r.brief());
            }
            h.bytes(&ex.bytes);
            t.outcome(h.0);
            let rejected = ex.results.iter().filter(|r| matches!(r, Res::Err(..))).count();
            t.count("calls_rejected_at_a_boundary", rejected as u64);
            if !ex.results.last().map(|r| r.is_ok()).unwrap_or(false) {
                t.count("finish_rejected_at_a_boundary", 1);
                return; // an error was returned instead of a wrapped value: fine
            }
            let e = expect_from(cfg, ops, &ex.results);
            let m = parse_movie(&ex.bytes, "prog");
            for (sig, d) in exact_fields(&ex.bytes, &m, cfg, &e) {
                t.violation(&format!("C16/prog/{sig}"), order, || format!("{name} | {} | results {:?} | {d}", brief_ops(ops), ex.results.iter().map(|r| r.brief()).collect::<Vec<_>>()), case);
            }
            // the same history with a title and a creation time (and, every other case, the other
            // layout): the user-data box moves the media data, every numeric field must follow
            if cfg.meta.is_none() {
                let mut c2 = cfg.clone();
                c2.meta = Some(oracle::model::Meta { title: Some("sixteen".into()), time: Some(1_000_000_000), lang: None });
                if order.1 % 2 == 1 {
                    c2.fast_start = !c2.fast_start;
                }
                let ex2 = run(&c2, &all);
                t.evaluations += 1;
                if ex2.panicked().is_none() && ex2.results.last().map(|r| r.is_ok()).unwrap_or(false) {
                    let e2 = expect_from(&c2, ops, &ex2.results);
                    let m2 = parse_movie(&ex2.bytes, "prog");
                    for (sig, d) in exact_fields(&ex2.bytes, &m2, &c2, &e2) {
                        t.violation(&format!("C16/prog/{sig}"), (order.0, order.1 + 500_000), || format!("{name} (with metadata, fast start {}) | {} | {d}", c2.fast_start, brief_ops(ops)), || json!({"engine": "E2-c16-prog", "name": name, "cfg": c2, "ops": ops}));
                    }
                }
            }
            t.sample(2, || json!({"case": name, "history": brief_ops(ops), "results": ex.results.iter().map(|r| r.brief()).collect::<Vec<_>>()}));
        }
        Case::ParamSets { codec, sps, pps, vps, dup } => {
            let mk = |mut base: Vec<u8>, len: usize| {
                while base.len() < len {
                    let i = base.len();
                    base.push(0x10 + (i % 0xe0) as u8);
                }
                base.truncate(len);
                base
            };
            let (s, p, v) = match codec {
                VCodec::H264 => (mk(frames::h264_sps(0), *sps), mk(frames::h264_pps(0), *pps), vec![]),
                _ => (mk(frames::h265_sps(0), *sps), mk(frames::h265_pps(0), *pps), mk(frames::h265_vps(0), *vps)),
            };
            let mut units = vec![];
            if *codec == VCodec::H265 {
                units.push(v.clone());
            }
            units.push(s.clone());
            units.push(p.clone());
            if *dup {
                // "the first SPS / PPS / VPS": later sets of the same type must not be taken
                // instead, in particular not when the first one cannot be represented
                if *codec == VCodec::H265 {
                    units.push(frames::h265_vps(1));
                }
                units.push(if *codec == VCodec::H264 { frames::h264_sps(1) } else { frames::h265_sps(1) });
                units.push(if *codec == VCodec::H264 { frames::h264_pps(1) } else { frames::h265_pps(1) });
            }
            units.push(if *codec == VCodec::H264 { vec![0x65, 0x88, 0x84] } else { vec![0x26, 0x01, 0xaf] });
            let frame = annexb(&units, false);
            let cfg = Cfg::basic(*codec, None, sps % 2 == 0);
            let ops = vec![Op::WV { pts: T(0.0), data: Bytes::new(frame), key: true }, Op::FinishInPlaceStats];
            let ex = run(&cfg, &ops);
            let case = || json!({"engine": "E2-c16-paramsets", "codec": codec, "sps": sps, "pps": pps, "vps": vps, "dup": dup});
            if let Some((i, m)) = ex.panicked() {
                t.violation("C16/param-sets/panic", order, || format!("{codec:?} sps {sps} pps {pps} vps {vps}: call {i} panicked: {m}"), case);
                return;
            }
            t.outcome(oracle::report::h64(&ex.bytes) ^ ex.results.iter().filter(|r| r.is_ok()).count() as u64);
            if !ex.results.iter().all(|r| r.is_ok()) {
                t.count("calls_rejected_at_a_boundary", 1);
                return;
            }
            let m = parse_movie(&ex.bytes, "prog");
            let ok = match m.video().and_then(|t| t.entry.as_ref()).map(|e| &e.cfg) {
                Some(CodecCfg::Avc { sps: fs, pps: fp, .. }) => fs.len() == 1 && fs[0] == s && fp.len() == 1 && fp[0] == p,
                Some(CodecCfg::Hevc { arrays, .. }) => [(32u8, &v), (33, &s), (34, &p)].iter().all(|(ty, want)| arrays.iter().any(|a| a.0 == *ty && a.1.len() == 1 && &a.1[0] == *want)),
                _ => false,
            };
            if !ok {
                t.violation("C16/param-sets/length-field", order, || format!("{codec:?} with SPS {sps} / PPS {pps} / VPS {vps} bytes (second small sets following: {dup}) was accepted but the configuration record does not hold the first parameter sets (16-bit length fields)"), case);
            }
        }
        Case::Frag { name, cfg, hist } => {
            let case = || json!({"engine": "E2-c16-frag", "name": name, "cfg": cfg, "history": hist});
            let r = guarded(|| {
                let mut m = frag::make(cfg).map_err(|e| e.to_string())?;
                let mut accepted: Vec<(u64, u64)> = vec![];
                let mut seg = None;
                for op in hist {
                    match op {
                        FOp::Write { pts, dts, data, sync } => {
                            if m.write_video(*pts, *dts, &oracle::model::unhex(data).unwrap_or_default(), *sync).is_ok() {
                                accepted.push((*pts, *dts));
                            }
                        }
                        FOp::Flush => seg = m.flush_segment(),
                        _ => {}
                    }
                }
                Ok::<_, String>((accepted, seg))
            });
            match r {
                Err(p) => t.violation("C16/frag/panic", order, || format!("{name}: {p}"), case),
                Ok(Err(_)) => {}
                Ok(Ok((acc, seg))) => {
                    t.outcome(oracle::report::h64(seg.as_deref().unwrap_or(&[])));
                    let Some(seg) = seg else { return };
                    let s = parse_segment(&seg);
                    if s.samples.len() != acc.len() {
                        return;
                    }
                    for i in 0..acc.len() {
                        if i + 1 < acc.len() {
                            let want = acc[i + 1].1 - acc[i].1;
                            if s.samples[i].dur.map(|d| d as u64) != Some(want) {
                                t.violation("C16/frag/trun-duration-wrap", order, || format!("{name}: sample {i} trun duration {:?}, decode times differ by {want}", s.samples[i].dur), case);
                            }
                        }
                        let cts = acc[i].0 as i128 - acc[i].1 as i128;
                        if s.samples[i].cts.map(|c| c as i128) != Some(cts) {
                            t.violation("C16/frag/trun-composition-offset-wrap", order, || format!("{name}: sample {i} trun offset {:?}, pts-dts = {cts}", s.samples[i].cts), case);
                        }
                    }
                }
            }
        }
        Case::InitOne { codec, which, len } => {
            use muxide::api::{MuxerBuilder, VideoCodec};
            let case = || json!({"engine": "E2-c16-init-one", "codec": codec, "which": which, "len": len});
            let sized = |base: Vec<u8>, w: u8| -> Vec<u8> {
                let mut b = base;
                if w == *which {
                    while b.len() < *len {
                        let i = b.len();
                        b.push(0x10 + (i % 0xe0) as u8);
                    }
                }
                b
            };
            let (vps, sps, pps) = (sized(frames::h265_vps(0), 0), sized(if *codec == VCodec::H264 { frames::h264_sps(0) } else { frames::h265_sps(0) }, 1), sized(if *codec == VCodec::H264 { frames::h264_pps(0) } else { frames::h265_pps(0) }, 2));
            let r = guarded(|| {
                let b = MuxerBuilder::new(Vec::<u8>::new());
                let b = match codec {
                    VCodec::H264 => b.video(VideoCodec::H264, 640, 480, 30.0).with_sps(sps.clone()).with_pps(pps.clone()),
                    _ => b.video(VideoCodec::H265, 640, 480, 30.0).with_vps(vps.clone()).with_sps(sps.clone()).with_pps(pps.clone()),
                };
                b.new_with_fragment().map(|mut m| m.init_segment()).map_err(|e| format!("{e:?}"))
            });
            match r {
                Err(p) => t.violation("C16/init/panic", order, || format!("{codec:?} set {which} of {len} bytes: {p}"), case),
                Ok(Err(_)) => t.count("calls_rejected_at_a_boundary", 1),
                Ok(Ok(init)) => {
                    t.outcome(oracle::report::h64(&init));
                    let m = parse_movie(&init, "init");
                    let ok = match m.video().and_then(|t| t.entry.as_ref()).map(|e| &e.cfg) {
                        Some(CodecCfg::Avc { sps: fs, pps: fp, .. }) => fs.first() == Some(&sps) && fp.first() == Some(&pps),
                        Some(CodecCfg::Hevc { arrays, .. }) => [(32u8, &vps), (33, &sps), (34, &pps)].iter().all(|(ty, want)| arrays.iter().any(|a| a.0 == *ty && a.1.first() == Some(*want))),
                        _ => false,
                    };
                    if !ok {
                        t.violation("C16/init/builder/param-set-length-wrapped", order, || format!("{codec:?}: parameter set {which} (0 = VPS, 1 = SPS, 2 = PPS) of {len} bytes accepted but not recoverable from the record"), case);
                    }
                }
            }
        }
        Case::Init { cfg } => {
            let case = || json!({"engine": "E2-c16-init", "cfg": cfg});
            match guarded(|| frag::make(cfg).map(|mut m| m.init_segment())) {
                Err(p) => t.violation("C16/init/panic", order, || format!("{cfg:?}: {p}"), case),
                Ok(Err(_)) => t.count("calls_rejected_at_a_boundary", 1),
                Ok(Ok(init)) => {
                    t.outcome(oracle::report::h64(&init));
                    let m = parse_movie(&init, "init");
                    if let Some(e) = m.video().and_then(|t| t.entry.as_ref()) {
                        if (e.width as u32, e.height as u32) != (cfg.width, cfg.height) {
                            let via = if cfg.via_builder { "builder" } else { "FragmentConfig" };
                            t.violation(&format!("C16/init/{via}/dimension-truncated"), order, || format!("{cfg:?}: sample entry {}x{}", e.width, e.height), case);
                        }
                        let (s, p, v) = (frag::sps_of(cfg.codec, cfg.ps_len), frag::pps_of(cfg.codec, cfg.ps_len), frag::vps_of(cfg.ps_len));
                        let ok = match &e.cfg {
                            CodecCfg::Avc { sps: fs, pps: fp, .. } => fs.first() == Some(&s) && fp.first() == Some(&p),
                            CodecCfg::Hevc { arrays, .. } => [(32u8, &v), (33, &s), (34, &p)].iter().all(|(ty, want)| arrays.iter().any(|a| a.0 == *ty && a.1.first() == Some(*want))),
                            _ => true,
                        };
                        if !ok {
                            let via = if cfg.via_builder { "builder" } else { "FragmentConfig" };
                            t.violation(&format!("C16/init/{via}/param-set-length-wrapped"), order, || format!("{cfg:?}: parameter sets of {} bytes not recoverable from the record", cfg.ps_len), case);
                        }
                    }
                }
            }
        }
    }
}

pub fn check(ctx: &Ctx) -> i32 {
    let cs = cases();
    let n = cs.len();
    let chunks: Vec<&[Case]> = cs.chunks(40).collect();
    let mut tally = par_items(&chunks, ctx.seed, |idx, ch, t| {
        for (k, c) in ch.iter().enumerate() {
            judge(c, (idx as u64, k as u64), t);
        }
    });
    huge_part(ctx, &mut tally, "C16");
    finish(
        ctx,
        &tally,
        Meta {
            level: "exploration",
            rule: format!("{n} boundary cases: video decode-time gaps g1 (x optional g2) over {{3000, 2^31-1, 2^31, 2^31+1, 2^32-2, 2^32-1, 2^32, 2^32+1}} ticks x composition offset of the second frame (and, separately, of the first / only frame) over {{0, +-(2^31-1), +-2^31, +-(2^31+1)}} from start {{0, 2^33}} (cumulative durations crossing 2^32 included); two-frame recordings with every whole-millisecond total from 1000 to 1100 ms and a ladder up to 4e7 ms (header durations exact); the same gap product for AAC and Opus audio; parameter sets of 65534..65537 bytes (SPS) x {{4, 65535, 65536}} (PPS) x VPS, each alone and followed by a second small set of every type; dimensions {{65535, 65536, 65537, 131072, u32::MAX}} x {{480, 65535, 65536}} x 4 codecs with and without frames; audio rates {{65535, 65536, 88200, 96000, u32::MAX}} x channels {{1, 6, 255, 256, 65535}}; absolute timestamps near 2^40, 2^52, 2^53 ticks and 1e15/1e300/f64::MAX s; fragmented DTS gaps {{2^32-1, 2^32, 2^33}} x composition offsets around 2^31; init segments with dimensions and parameter sets around 2^16 (all sets together, and each set alone through the builder). Oracle: the crossing call returns Err, or every numeric field the reader decodes equals the exact integer recomputed from the submitted history (no 32-bit escape). Thorough tier only: 32 files whose media data reaches 2^32 bytes (14 of them with three trailing Opus packets of 100 or 10 bytes, whose chunk offsets are the ones that cross) (mdat box size 2^32 - e for e over {{-64, -1, 0, 1, 16, 64, 600, 1200, 5000}} x both layouts, the last sample 32 bytes so that its chunk offset crosses 2^32 while the box size still fits), each in a child process: refused, or exact under the reader (which understands largesize and co64). Distinct by (results, output bytes)."),
            bound: "three inputs (below / at / above) per narrowing site, pairwise with neighbouring sites".into(),
            exhaustive: true,
            assumptions: vec!["descriptor lengths near 2^8 are unreachable from inputs of feasible size and are not claimed; box sizes and chunk offsets near 2^32 are exercised in the thorough tier only (10 GiB per case)".into(), "mvhd/tkhd durations may match any track and any rounding direction; only wrapped/clipped values are violations".into()],
            extra: json!({"cases": n}),
        },
    )
}

// ---------------------------------------------------------------------------------------------
// files whose media data reaches 2^32 bytes (thorough tier; one child process per case)
// ---------------------------------------------------------------------------------------------

/// Shared sink with its capacity reserved up front (a doubling Vec would peak at twice the size).
struct BigSink(std::rc::Rc<std::cell::RefCell<Vec<u8>>>);
impl std::io::Write for BigSink {
    fn write(&mut self, b: &[u8]) -> std::io::Result<usize> {
        self.0.borrow_mut().extend_from_slice(b);
        Ok(b.len())
    }
    fn flush(&mut self) -> std::io::Result<()> {
        Ok(())
    }
}

/// Child process: five VP9 keyframes whose payloads sum to 2^32 - 8 - e bytes (so the mdat box
/// is 2^32 - e bytes long), the last one 32 bytes. Prints one line: `ERR <message>` (a write or
/// finish refused), `OK <bytes>` (file correct under the exact-value oracle), or `BAD <sig>: ...`.
/// Exit: 0 = ERR or OK, 1 = BAD, 3 = panic.
pub fn child_huge(e: i64, fast: bool, audio_mode: u8) -> i32 {
    // 0 = video only, 1 = three trailing 100-byte Opus packets, 2 = three trailing 10-byte packets
    let trailing_audio = audio_mode > 0;
    use muxide::api::{AudioCodec, MuxerBuilder, VideoCodec};
    let big = (1usize << 30) + (1usize << 28);
    let total: i64 = (1i64 << 32) - 8 - e;
    // with trailing audio: three 100-byte Opus packets after the video (their chunk offsets are
    // the ones that cross 2^32 in the fast-start layout), and no 32-byte last video frame
    let apkts: Vec<Vec<u8>> = if trailing_audio { (0..3u32).map(|i| frames::opus_packet(i, if audio_mode == 1 { 99 } else { 9 })).collect() } else { vec![] };
    let alen: i64 = apkts.iter().map(|p| p.len() as i64).sum();
    let lens: Vec<usize> = if trailing_audio { vec![big, big, big, (total - 3 * big as i64 - alen) as usize] } else { vec![big, big, big, (total - 3 * big as i64 - 32) as usize, 32usize] };
    let mut buf = vec![0u8; big];
    for (i, b) in buf.iter_mut().enumerate() {
        *b = ((i as u64).wrapping_mul(0x9E37_79B9_7F4A_7C15) >> 56) as u8;
    }
    let hdr = frames::Vp9Hdr::default().header(true);
    buf[..hdr.len()].copy_from_slice(&hdr);
    let store = std::rc::Rc::new(std::cell::RefCell::new(Vec::with_capacity((1usize << 32) + (1 << 16))));
    let st2 = store.clone();
    let apkts2 = apkts.clone();
    let lens2 = lens.clone();
    let r = guarded(move || {
        let lens = lens2;
        let mut b = MuxerBuilder::new(BigSink(st2)).video(VideoCodec::Vp9, 1280, 720, 30.0).with_fast_start(fast);
        if trailing_audio {
            b = b.audio(AudioCodec::Opus, 48000, 2);
        }
        let mut m = match b.build() {
            Ok(m) => m,
            Err(e) => return Err(format!("build: {e}")),
        };
        for (i, &l) in lens.iter().enumerate() {
            if let Err(e) = m.write_video(i as f64 / 30.0, &buf[..l], true) {
                return Err(format!("write {i}: {e}"));
            }
        }
        for (j, p) in apkts2.iter().enumerate() {
            if let Err(e) = m.write_audio(1.0 + j as f64 * 0.02, p) {
                return Err(format!("write_audio {j}: {e}"));
            }
        }
        match m.finish_in_place_with_stats() {
            Err(e) => Err(format!("finish: {e}")),
            Ok(st) => Ok((st.bytes_written, buf)),
        }
    });
    let (reported, buf) = match r {
        Err(p) => {
            println!("BAD panic: {p}");
            return 3;
        }
        Ok(Err(e)) => {
            println!("ERR {e}");
            return 0;
        }
        Ok(Ok(x)) => x,
    };
    let d = store.borrow();
    if reported != d.len() as u64 {
        println!("BAD bytes-written: reported {reported}, sink holds {}", d.len());
        return 1;
    }
    let m = parse_movie(&d, "prog");
    if let Some(p) = m.probs.of(&[oracle::reader::Class::Tile, oracle::reader::Class::Mandatory, oracle::reader::Class::Count]).first() {
        println!("BAD structure/{}: {}", p.sig, p.detail);
        return 1;
    }
    let Some(s) = m.video().and_then(|t| t.samples().ok()) else {
        println!("BAD video-track: missing or unexpandable");
        return 1;
    };
    if s.len() != lens.len() {
        println!("BAD sample-count: {} for {} frames", s.len(), lens.len());
        return 1;
    }
    let Some(mdat) = &m.mdat else {
        println!("BAD mdat: missing");
        return 1;
    };
    let mut pos = mdat.0 as u64;
    for (i, (loc, &l)) in s.iter().zip(lens.iter()).enumerate() {
        if loc.size as usize != l {
            println!("BAD sample-size: sample {i} stsz {} for {l} bytes", loc.size);
            return 1;
        }
        if loc.offset != pos {
            println!("BAD chunk-offset: sample {i} is stored at {pos}, the table says {}", loc.offset);
            return 1;
        }
        let (a, b) = (loc.offset as usize, loc.offset as usize + l);
        if b > d.len() || d[a..b] != buf[..l] {
            println!("BAD sample-bytes: sample {i} at {a}..{b}");
            return 1;
        }
        pos += l as u64;
    }
    if trailing_audio {
        let Some(a) = m.audio().and_then(|t| t.samples().ok()) else {
            println!("BAD audio-track: missing or unexpandable");
            return 1;
        };
        if a.len() != apkts.len() {
            println!("BAD audio-sample-count: {} for {} packets", a.len(), apkts.len());
            return 1;
        }
        for (i, (loc, p)) in a.iter().zip(apkts.iter()).enumerate() {
            if loc.size as usize != p.len() {
                println!("BAD audio-sample-size: sample {i} stsz {} for {} bytes", loc.size, p.len());
                return 1;
            }
            if loc.offset != pos {
                println!("BAD audio-chunk-offset: audio sample {i} is stored at {pos}, the table says {}", loc.offset);
                return 1;
            }
            let (x, y) = (loc.offset as usize, loc.offset as usize + p.len());
            if y > d.len() || d[x..y] != p[..] {
                println!("BAD audio-sample-bytes: audio sample {i} at {x}..{y}");
                return 1;
            }
            pos += p.len() as u64;
        }
    }
    if pos != mdat.1 as u64 {
        println!("BAD mdat-coverage: samples end at {pos}, mdat at {}", mdat.1);
        return 1;
    }
    println!("OK {}", d.len());
    0
}

pub fn huge_part(ctx: &Ctx, t: &mut Tally, prop: &str) {
    if !ctx.thorough {
        return;
    }
    // needs ~10 GiB per child; skipped (and counted) when the machine cannot provide it
    let avail_kib: u64 = std::fs::read_to_string("/proc/meminfo").ok().and_then(|m| m.lines().find(|l| l.starts_with("MemAvailable:")).and_then(|l| l.split_whitespace().nth(1).and_then(|v| v.parse().ok()))).unwrap_or(0);
    if avail_kib < 24 * 1024 * 1024 {
        t.count("huge_file_cases_skipped_for_lack_of_memory", 1);
        return;
    }
    let exe = std::env::current_exe().expect("exe");
    let mut cases = vec![];
    for e in [-64i64, -1, 0, 1, 16, 64, 600, 1200, 5000] {
        if prop != "C16" && ![1i64, 64, 1200].contains(&e) {
            continue;
        }
        for fast in [false, true] {
            cases.push((e, fast, 0u8));
            if [1i64, 64, 600, 1200].contains(&e) {
                cases.push((e, fast, 1));
            }
            if [1i64, 16, 64].contains(&e) {
                cases.push((e, fast, 2));
            }
        }
    }
    // two children at a time
    for (pi, pair) in cases.chunks(2).enumerate() {
        let kids: Vec<_> = pair.iter().map(|&(e, fast, ta)| (e, fast, ta, std::process::Command::new(&exe).arg("--c16-huge").arg(e.to_string()).arg(if fast { "1" } else { "0" }).arg(ta.to_string()).stdout(std::process::Stdio::piped()).stderr(std::process::Stdio::null()).spawn())).collect();
        for (k, (e, fast, ta, c)) in kids.into_iter().enumerate() {
            t.evaluations += 1;
            let order = (900_000 + pi as u64, k as u64);
            let case = || json!({"engine": "E2-c16-huge", "e": e, "fast_start": fast, "trailing_audio": ta});
            let out = match c.and_then(|c| c.wait_with_output()) {
                Ok(o) => o,
                Err(_) => {
                    t.count("huge_file_children_not_spawned", 1);
                    continue;
                }
            };
            let line = String::from_utf8_lossy(&out.stdout).lines().last().unwrap_or("").to_string();
            let fits = e >= 1;
            match (out.status.code(), line.split_whitespace().next()) {
                (Some(0), Some("ERR")) => {
                    t.count(if fits { "huge_file_refused_although_mdat_size_fits (chunk offsets may not)" } else { "huge_file_refused" }, 1);
                    t.outcome(oracle::report::h64(line.as_bytes()));
                }
                (Some(0), Some("OK")) => {
                    t.count("huge_file_written_and_exact", 1);
                    t.outcome(oracle::report::h64(line.as_bytes()) ^ e as u64);
                    if !fits {
                        // the reader understands largesize / co64, so this can only be a correct 64-bit file
                        t.count("huge_file_written_with_64_bit_fields", 1);
                    }
                }
                (Some(1), _) | (Some(3), _) => {
                    let sig = line.split(':').next().unwrap_or("BAD").replace("BAD ", "").replace(' ', "-");
                    t.violation(&format!("{prop}/huge/{sig}"), order, || format!("media data of 2^32 - 8 - ({e}) bytes, fast_start {fast}, trailing audio {ta}: {line}"), case);
                }
                _ => t.count("huge_file_children_crashed (machinery, e.g. out of memory)", 1),
            }
        }
    }
}

pub fn replay(case: &Value) -> i32 {
    let mut t = Tally::default();
    let c = match case["engine"].as_str() {
        Some("E2-c16-prog") => Case::Prog { name: case["name"].as_str().unwrap_or("?").into(), cfg: serde_json::from_value(case["cfg"].clone()).unwrap(), ops: serde_json::from_value(case["ops"].clone()).unwrap() },
        Some("E2-c16-paramsets") => Case::ParamSets { codec: serde_json::from_value(case["codec"].clone()).unwrap(), sps: case["sps"].as_u64().unwrap() as usize, pps: case["pps"].as_u64().unwrap() as usize, vps: case["vps"].as_u64().unwrap() as usize, dup: case["dup"].as_bool().unwrap_or(false) },
        Some("E2-c16-frag") => Case::Frag { name: case["name"].as_str().unwrap_or("?").into(), cfg: serde_json::from_value(case["cfg"].clone()).unwrap(), hist: serde_json::from_value(case["history"].clone()).unwrap() },
        Some("E2-c16-init") => Case::Init { cfg: serde_json::from_value(case["cfg"].clone()).unwrap() },
        Some("E2-c16-init-one") => Case::InitOne { codec: serde_json::from_value(case["codec"].clone()).unwrap(), which: case["which"].as_u64().unwrap_or(0) as u8, len: case["len"].as_u64().unwrap_or(0) as usize },
        Some("E2-c16-huge") => {
            let rc = child_huge(case["e"].as_i64().unwrap_or(0), case["fast_start"].as_bool().unwrap_or(false), case["trailing_audio"].as_u64().unwrap_or(0) as u8);
            println!("{}", if rc == 0 { "replay: property C16 holds for this case" } else { "replay: VIOLATION (see the line above)" });
            return rc.min(1);
        }
        _ => return 2,
    };
    println!("case: {c:?}");
    judge(&c, (0, 0), &mut t);
    if t.viol.is_empty() {
        println!("replay: property C16 holds for this case");
        0
    } else {
        for (s, f) in &t.viol {
            println!("replay: VIOLATION {s}: {}", f.detail);
        }
        1
    }
}
