//! C17 - output is a pure function of the call sequence; equivalent API paths agree.
//!
//! (1) thread schedules: real OS threads under the baton scheduler (oracle::sched), all schedules
//!     up to a preemption bound; (2) two instances interleaved on one thread; (3) move between
//!     threads; (4) equivalent API paths and sink types; (5) wall-clock independence via an
//!     LD_PRELOAD clock shim in child processes; (6) the auto-trait implication, discharged by
//!     the compiler when this file is built.

use crate::run::{acodec, apply, builder, classify, metadata, vcodec, RecSink};
use muxide::api::{AudioCodec, Metadata, Muxer, MuxerBuilder};
use crate::frag::{self, FCfg, FOp};
use muxide::invariant_ppt;
use oracle::frames::{audio_frame, video_frame, ACodec, VCodec};
use oracle::hist::{self, HistSpec, PtsMode};
use oracle::model::{brief_ops, Bytes, Cfg, Meta as MMeta, Op, Res, T};
use oracle::refmodel::{tick, tick_is_robust};
use oracle::report::{finish, guarded, par_items, Ctx, Fnv, Meta, Tally};
use oracle::sched::{explore, Policy, Sched};
use serde_json::{json, Value};
use std::io::{self, Write};
use std::sync::{Arc, Mutex};

// The universally quantified auto-trait clause (Muxer<W>: Send for all W: Send; FragmentedMuxer:
// Send) lives in the separate crate harness/sendprobe, which this check builds on its own: a
// compile error there is a C17 verdict, while this harness keeps building (it moves muxers
// between threads through `ForceSend`, so the run-time clauses stay observable either way).
pub struct ForceSend<T>(pub T);
// SAFETY (harness-side): the wrapped value is handed to exactly one other thread while the sending
// thread blocks in join(); nothing is accessed concurrently.
unsafe impl<T> Send for ForceSend<T> {}

/// builds harness/sendprobe; Ok(()) = compiles, Err(Some(log)) = auto trait lost, Err(None) = machinery
pub fn send_probe() -> Result<(), Option<String>> {
    let root = std::env::var("VERIF_ROOT").unwrap_or_else(|_| "/verif".into());
    let out = std::process::Command::new("cargo")
        .args(["build", "--offline", "-q"])
        .current_dir(format!("{root}/harness/sendprobe"))
        .env("CARGO_TARGET_DIR", format!("{root}/target/sendprobe"))
        .env("CARGO_NET_OFFLINE", "true")
        .output();
    match out {
        Ok(o) if o.status.success() => Ok(()),
        Ok(o) => {
            let e = String::from_utf8_lossy(&o.stderr).to_string();
            if e.contains("E0277") || e.contains("cannot be sent between threads safely") {
                Err(Some(e))
            } else {
                eprintln!("send probe: unexpected build failure (machinery):\n{e}");
                Err(None)
            }
        }
        Err(e) => {
            eprintln!("send probe: cannot run cargo: {e}");
            Err(None)
        }
    }
}

#[derive(Clone, Debug)]
pub enum Step {
    Call(Op),
    LogClear,
    LogGet,
    /// contract_test on an invariant this program's own calls have logged (must not panic)
    ContractOwn,
    /// a call on the program's FragmentedMuxer (programs with `fcfg`)
    Frag(FOp),
}

#[derive(Clone, Debug)]
pub struct Program {
    pub name: &'static str,
    pub cfg: Cfg,
    /// Some = the program drives a FragmentedMuxer of this configuration instead of a Muxer
    pub fcfg: Option<FCfg>,
    pub steps: Vec<Step>,
}

#[derive(Clone, Debug, PartialEq)]
pub struct Obs {
    pub results: Vec<String>,
    pub bytes: Vec<u8>,
    pub log: Vec<String>,
    pub log_gets: Vec<usize>,
}

type Hook = Arc<dyn Fn() + Send + Sync>;

/// Send + Sync sink over a shared handle; yields to the scheduler before every write
#[derive(Clone)]
pub struct SharedSink {
    pub buf: Arc<Mutex<Vec<u8>>>,
    pub hook: Hook,
}

impl Write for SharedSink {
    fn write(&mut self, b: &[u8]) -> io::Result<usize> {
        (self.hook)();
        self.buf.lock().unwrap().extend_from_slice(b);
        Ok(b.len())
    }
    fn flush(&mut self) -> io::Result<()> {
        Ok(())
    }
}

fn res_str(r: &Res) -> String {
    match r {
        Res::Err(_, d) => format!("Err({d})"),
        o => o.brief(),
    }
}

/// one call on a FragmentedMuxer; everything it returns goes into the result string or the bytes
pub fn frag_step(m: &mut Option<muxide::fragmented::FragmentedMuxer>, op: &FOp, bytes: &mut Vec<u8>) -> String {
    let Some(mx) = m.as_mut() else { return "no-muxer".into() };
    let r = guarded(|| match op {
        FOp::Write { pts, dts, data, sync } => {
            let d = oracle::model::unhex(data).unwrap_or_default();
            (format!("{:?}", mx.write_video(*pts, *dts, &d, *sync).map_err(|e| format!("{e:?}"))), vec![])
        }
        FOp::Flush => match mx.flush_segment() {
            Some(seg) => (format!("segment({})", seg.len()), seg),
            None => ("none".into(), vec![]),
        },
        FOp::Ready => (format!("ready={}", mx.ready_to_flush()), vec![]),
        FOp::Dur => (format!("dur={}", mx.current_fragment_duration_ms()), vec![]),
        FOp::Init => {
            let i = mx.init_segment();
            (format!("init({})", i.len()), i)
        }
    });
    match r {
        Ok((s, b)) => {
            bytes.extend_from_slice(&b);
            s
        }
        Err(e) => format!("panic:{e}"),
    }
}

fn run_frag_program(p: &Program, fc: &FCfg, hook: Hook) -> Obs {
    let mut obs = Obs { results: vec![], bytes: vec![], log: vec![], log_gets: vec![] };
    hook();
    invariant_ppt::clear_invariant_log();
    let mut m = match guarded(|| frag::make(fc)) {
        Ok(Ok(m)) => Some(m),
        _ => None,
    };
    for s in &p.steps {
        hook();
        match s {
            Step::Frag(op) => {
                let r = frag_step(&mut m, op, &mut obs.bytes);
                obs.results.push(r);
            }
            Step::LogClear => invariant_ppt::clear_invariant_log(),
            Step::LogGet => obs.log_gets.push(invariant_ppt::get_logged_invariants().len()),
            Step::ContractOwn | Step::Call(_) => {}
        }
    }
    hook();
    let mut log = invariant_ppt::get_logged_invariants();
    log.sort();
    obs.log = log;
    obs
}

pub fn run_program(p: &Program, hook: Hook, private_vec: bool) -> Obs {
    if let Some(fc) = &p.fcfg {
        return run_frag_program(p, fc, hook);
    }
    let buf = Arc::new(Mutex::new(Vec::new()));
    let mut obs = Obs { results: vec![], bytes: vec![], log: vec![], log_gets: vec![] };
    // two sink types: a shared-handle sink, and a private sink that is copied out at the end
    let shared = SharedSink { buf: buf.clone(), hook: hook.clone() };
    hook();
    invariant_ppt::clear_invariant_log();
    let mut m: Option<Muxer<Box<dyn WriteSend>>> = match guarded(|| builder(&p.cfg, if private_vec { Box::new(PrivateSink { data: vec![], out: buf.clone(), hook: hook.clone() }) as Box<dyn WriteSend> } else { Box::new(shared) as Box<dyn WriteSend> }).build()) {
        Ok(Ok(m)) => Some(m),
        _ => None,
    };
    for s in &p.steps {
        hook();
        match s {
            Step::Call(op) => obs.results.push(res_str(&apply(&mut m, op))),
            Step::Frag(_) => {}
            Step::LogClear => invariant_ppt::clear_invariant_log(),
            Step::LogGet => obs.log_gets.push(invariant_ppt::get_logged_invariants().len()),
            Step::ContractOwn => {
                let r = guarded(|| invariant_ppt::contract_test("own", &["Box size must equal header + payload"]));
                obs.results.push(format!("contract_test:{}", r.is_ok()));
            }
        }
    }
    hook();
    let mut log = invariant_ppt::get_logged_invariants();
    log.sort();
    obs.log = log;
    drop(m);
    obs.bytes = buf.lock().unwrap().clone();
    obs
}

/// accepts at most `chunk` bytes per write call
pub struct ChunkSink {
    pub buf: Arc<Mutex<Vec<u8>>>,
    pub chunk: usize,
}
impl Write for ChunkSink {
    fn write(&mut self, b: &[u8]) -> io::Result<usize> {
        let n = b.len().min(self.chunk);
        self.buf.lock().unwrap().extend_from_slice(&b[..n]);
        Ok(n)
    }
    fn flush(&mut self) -> io::Result<()> {
        Ok(())
    }
}

pub trait WriteSend: Write + Send {}
impl<T: Write + Send> WriteSend for T {}

/// a sink owning a private Vec; the bytes are published when it is dropped
pub struct PrivateSink {
    data: Vec<u8>,
    out: Arc<Mutex<Vec<u8>>>,
    hook: Hook,
}
impl Write for PrivateSink {
    fn write(&mut self, b: &[u8]) -> io::Result<usize> {
        (self.hook)();
        self.data.extend_from_slice(b);
        Ok(b.len())
    }
    fn flush(&mut self) -> io::Result<()> {
        Ok(())
    }
}
impl Drop for PrivateSink {
    fn drop(&mut self) {
        *self.out.lock().unwrap() = std::mem::take(&mut self.data);
    }
}

fn v(codec: VCodec, i: usize, pts: f64, key: bool) -> Step {
    Step::Call(Op::WV { pts: T(pts), data: Bytes::new(video_frame(codec, key, i == 0, i as u32 + 1, 4 + i).0), key })
}
fn a(codec: ACodec, i: usize, pts: f64) -> Step {
    Step::Call(Op::WA { pts: T(pts), data: Bytes::new(audio_frame(codec, i as u32, 5).0) })
}

pub fn programs() -> Vec<Program> {
    let mut p = vec![];
    let c = Cfg::basic(VCodec::H264, Some(ACodec::AacLc), false);
    p.push(Program { name: "h264+aac/std", cfg: c, fcfg: None, steps: vec![v(VCodec::H264, 0, 0.0, true), a(ACodec::AacLc, 0, 0.0), Step::LogGet, v(VCodec::H264, 1, 1.0 / 30.0, false), a(ACodec::AacLc, 1, 0.02), Step::ContractOwn, Step::Call(Op::FinishInPlaceStats), Step::Call(Op::WV { pts: T(9.0), data: Bytes::new(vec![1]), key: false })] });
    let c = Cfg::basic(VCodec::Av1, None, true);
    p.push(Program { name: "av1/fast", cfg: c, fcfg: None, steps: vec![v(VCodec::Av1, 0, 0.5, true), Step::LogClear, v(VCodec::Av1, 1, 0.6, false), v(VCodec::Av1, 2, 0.55, false), Step::Call(Op::FinishInPlaceStats)] });
    let c = Cfg::basic(VCodec::Vp9, Some(ACodec::Opus), true);
    p.push(Program { name: "vp9+opus/fast", cfg: c, fcfg: None, steps: vec![v(VCodec::Vp9, 0, 0.0, true), a(ACodec::Opus, 0, 0.0), a(ACodec::Opus, 1, 0.0), Step::LogGet, Step::Call(Op::EV { data: Bytes::new(video_frame(VCodec::Vp9, false, false, 2, 5).0), dur_ms: 33 }), Step::Call(Op::FinishInPlaceStats)] });
    let mut c = Cfg::basic(VCodec::H265, None, false);
    c.meta = Some(MMeta { title: Some("thread".into()), time: Some(1_234_567_890), lang: Some("deu".into()) });
    p.push(Program { name: "h265/meta/std", cfg: c, fcfg: None, steps: vec![v(VCodec::H265, 0, 1.0, true), Step::Call(Op::WVD { pts: T(1.2), dts: T(1.1), data: Bytes::new(video_frame(VCodec::H265, false, false, 2, 6).0), key: false }), Step::LogClear, Step::ContractOwn, Step::Call(Op::FinishInPlaceStats)] });
    p
}

fn fw(pts: u64, dts: u64, len: usize, tag: u8, sync: bool) -> Step {
    let d: Vec<u8> = (0..len).map(|i| tag.wrapping_add(i as u8)).collect();
    Step::Frag(FOp::Write { pts, dts, data: oracle::model::hex(&d), sync })
}

/// the four progressive programs plus two that drive a FragmentedMuxer (indices 4 and 5)
pub fn all_programs() -> Vec<Program> {
    let mut p = programs();
    let f1 = FCfg { codec: VCodec::H264, via_builder: true, timescale: 90000, fragment_ms: 50, start_dts: 0, width: 640, height: 480, ps_len: 10 };
    p.push(Program {
        name: "frag/h264/builder",
        cfg: Cfg::basic(VCodec::H264, None, false),
        fcfg: Some(f1),
        steps: vec![Step::Frag(FOp::Init), fw(3000, 0, 9, 0x11, true), fw(9000, 3000, 5, 0x21, false), Step::LogGet, Step::Frag(FOp::Ready), Step::Frag(FOp::Flush), fw(2000, 2000, 3, 0x31, false), fw(12000, 9000, 7, 0x41, true), Step::Frag(FOp::Flush), Step::Frag(FOp::Init)],
    });
    let f2 = FCfg { codec: VCodec::H265, via_builder: false, timescale: 48000, fragment_ms: 1, start_dts: 9000, width: 320, height: 240, ps_len: 30 };
    p.push(Program {
        name: "frag/h265/config",
        cfg: Cfg::basic(VCodec::H265, None, false),
        fcfg: Some(f2),
        steps: vec![fw(9000, 9000, 4, 0x51, true), fw(9050, 9048, 300, 0x61, false), Step::Frag(FOp::Flush), Step::Frag(FOp::Init), Step::LogClear, fw(9100, 9100, 0, 0, true), Step::Frag(FOp::Dur), Step::Frag(FOp::Flush)],
    });
    p
}

/// Run `assign[t]` = list of program indices for thread t under one schedule.
fn run_schedule(progs: &[Program], assign: &[Vec<usize>], policy: Policy, private_vec: bool) -> Result<(Vec<oracle::sched::Point>, Vec<Vec<Obs>>), String> {
    let n = assign.len();
    let s = Sched::new(n, policy);
    let hs: Vec<_> = (0..n)
        .map(|tid| {
            let s2 = s.clone();
            let mine: Vec<Program> = assign[tid].iter().map(|&i| progs[i].clone()).collect();
            std::thread::spawn(move || {
                oracle::report::quiet_panics();
                let s3 = s2.clone();
                let hook: Hook = Arc::new(move || s3.point(tid));
                let mut out = vec![];
                for p in &mine {
                    out.push(run_program(p, hook.clone(), private_vec));
                }
                s2.done(tid);
                out
            })
        })
        .collect();
    let mut obs = vec![];
    for h in hs {
        obs.push(h.join().map_err(|_| "a scheduled thread panicked outside catch_unwind".to_string())?);
    }
    let pts = s.finish()?;
    Ok((pts, obs))
}

fn solo(progs: &[Program]) -> Vec<Obs> {
    // each program alone on a fresh thread, no interleaving
    progs
        .iter()
        .map(|p| {
            let p = p.clone();
            std::thread::spawn(move || {
                oracle::report::quiet_panics();
                run_program(&p, Arc::new(|| {}), false)
            })
            .join()
            .expect("solo run")
        })
        .collect()
}

fn schedules_part(ctx: &Ctx, t: &mut Tally) -> Result<(), String> {
    let progs = all_programs();
    let reference = solo(&progs);
    let reference2 = solo(&progs);
    if reference != reference2 {
        t.violation("C17/solo-run-not-reproducible", (0, 0), || "two solo runs of the same program on fresh threads differ".into(), || json!({"engine": "E4", "what": "solo"}));
    }
    let setups: Vec<(&str, Vec<Vec<usize>>, usize, bool)> = if ctx.thorough {
        vec![("2 threads x 2 programs", vec![vec![0, 1], vec![2, 3]], 3, false), ("2 threads x 2 programs (private sinks)", vec![vec![1, 0], vec![3, 2]], 2, true), ("3 threads x 1 program", vec![vec![0], vec![1], vec![3]], 2, false), ("same program on 2 threads", vec![vec![0], vec![0]], 3, true), ("fragmented next to progressive", vec![vec![4, 2], vec![1, 5]], 3, false), ("two fragmented muxers", vec![vec![4], vec![5]], 4, false), ("same fragmented program on 2 threads", vec![vec![4], vec![4]], 3, false), ("3 threads: fragmented x 2 + progressive", vec![vec![4], vec![5], vec![0]], 2, false)]
    } else {
        vec![("2 threads x 2 programs", vec![vec![0, 1], vec![2, 3]], 2, false), ("3 threads x 1 program", vec![vec![1], vec![2], vec![3]], 1, true), ("same program on 2 threads", vec![vec![0], vec![0]], 2, true), ("fragmented next to progressive", vec![vec![4, 2], vec![1, 5]], 2, false), ("two fragmented muxers", vec![vec![4], vec![5]], 3, false), ("same fragmented program on 2 threads", vec![vec![4], vec![4]], 2, false), ("3 threads: fragmented x 2 + progressive", vec![vec![4], vec![5], vec![0]], 1, false)]
    };
    for (si, (name, assign, bound, private)) in setups.iter().enumerate() {
        // determinism self-check: the same schedule twice gives the same record and observations
        let first = run_schedule(&progs, assign, Policy::Prefix(vec![]), *private)?;
        let again = run_schedule(&progs, assign, Policy::Prefix(vec![]), *private)?;
        if first.0 != again.0 {
            return Err(format!("harness does not own the nondeterminism: schedule records differ for setup {name}"));
        }
        if first.1 != again.1 {
            t.violation("C17/same-schedule-different-result", (si as u64, 0), || format!("{name}: replaying the default schedule gave different observations"), || json!({"engine": "E4", "setup": name, "prefix": []}));
        }
        let mut counter = 0u64;
        let mut pending: Vec<(Vec<usize>, Vec<Vec<Obs>>)> = vec![];
        let n = explore(
            *bound,
            &mut |prefix| {
                let (pts, obs) = run_schedule(&progs, assign, Policy::Prefix(prefix.to_vec()), *private)?;
                pending.push((pts.iter().map(|p| p.choice).collect(), obs));
                Ok(pts)
            },
            &mut |_pts| {},
        )?;
        for (choices, obs) in pending {
            counter += 1;
            t.evaluations += 1;
            t.traces += 1;
            t.transitions += choices.len() as u64;
            let mut h = Fnv::new();
            for c in &choices {
                h.u64(*c as u64);
            }
            h.u64(si as u64);
            t.outcome(h.0);
            for (tid, list) in assign.iter().enumerate() {
                for (k, &pi) in list.iter().enumerate() {
                    if obs[tid][k] != reference[pi] {
                        let what = if obs[tid][k].bytes != reference[pi].bytes {
                            "output-bytes"
                        } else if obs[tid][k].results != reference[pi].results {
                            "return-values"
                        } else {
                            "invariant-log"
                        };
                        t.violation(&format!("C17/schedule-dependent/{what}"), (si as u64, counter), || format!("{name}: program {} on thread {tid} differs from its solo run under schedule {choices:?}: results {:?} vs {:?}, {} vs {} bytes, log {} vs {} entries", progs[pi].name, obs[tid][k].results, reference[pi].results, obs[tid][k].bytes.len(), reference[pi].bytes.len(), obs[tid][k].log.len(), reference[pi].log.len()), || json!({"engine": "E4", "setup": name, "assign": assign, "choices": choices, "private_sinks": private}));
                    }
                }
            }
        }
        t.states += n;
        t.count(&format!("schedules/{name}/preemption-bound-{bound}"), n);
        t.sample(3, || json!({"setup": name, "preemption_bound": bound, "schedules": n, "points_in_default_schedule": first.0.len()}));
    }
    // many threads: non-preemptive orders and round-robin only (stated bound)
    for n in [4usize, 8, 16] {
        let assign: Vec<Vec<usize>> = (0..n).map(|i| vec![i % progs.len()]).collect();
        let mut runs = vec![];
        if n == 4 {
            // every order of whole programs = every choice at the points where a thread finished
            explore(
                0,
                &mut |prefix| {
                    let (pts, obs) = run_schedule(&progs, &assign, Policy::Prefix(prefix.to_vec()), false)?;
                    runs.push(obs);
                    Ok(pts)
                },
                &mut |_| {},
            )?;
        }
        let (_, obs) = run_schedule(&progs, &assign, Policy::RoundRobin, n % 8 == 0)?;
        runs.push(obs);
        t.count(&format!("schedules/{n} threads (non-preemptive orders / round-robin)"), runs.len() as u64);
        for (ri, obs) in runs.iter().enumerate() {
            t.evaluations += 1;
            t.states += 1;
            for tid in 0..n {
                if obs[tid][0] != reference[tid % progs.len()] {
                    t.violation("C17/schedule-dependent/many-threads", (100 + n as u64, ri as u64), || format!("{n} threads: program {} on thread {tid} differs from its solo run", progs[tid % progs.len()].name), || json!({"engine": "E4", "threads": n, "run": ri}));
                }
            }
        }
    }
    Ok(())
}

// ---------------------------------------------------------------------------------------------
// two instances on one thread, interleaved at call granularity
// ---------------------------------------------------------------------------------------------

fn interleavings(a: usize, b: usize) -> Vec<Vec<bool>> {
    fn rec(a: usize, b: usize, cur: &mut Vec<bool>, out: &mut Vec<Vec<bool>>) {
        if a == 0 && b == 0 {
            out.push(cur.clone());
            return;
        }
        if a > 0 {
            cur.push(true);
            rec(a - 1, b, cur, out);
            cur.pop();
        }
        if b > 0 {
            cur.push(false);
            rec(a, b - 1, cur, out);
            cur.pop();
        }
    }
    let mut out = vec![];
    rec(a, b, &mut vec![], &mut out);
    out
}

fn calls_of(p: &Program) -> Vec<Op> {
    p.steps.iter().filter_map(|s| if let Step::Call(o) = s { Some(o.clone()) } else { None }).collect()
}

/// one muxer object of either kind, driven call by call on the current thread
enum Inst {
    Prog(Option<Muxer<RecSink>>, std::rc::Rc<std::cell::RefCell<crate::run::SinkState>>),
    Frag(Option<muxide::fragmented::FragmentedMuxer>, Vec<u8>),
}

#[derive(Clone, Debug)]
enum AnyOp {
    P(Op),
    F(FOp),
}

fn any_calls(p: &Program) -> Vec<AnyOp> {
    p.steps
        .iter()
        .filter_map(|s| match s {
            Step::Call(o) if p.fcfg.is_none() => Some(AnyOp::P(o.clone())),
            Step::Frag(o) if p.fcfg.is_some() => Some(AnyOp::F(o.clone())),
            _ => None,
        })
        .collect()
}

impl Inst {
    fn new(p: &Program) -> Inst {
        match &p.fcfg {
            Some(fc) => Inst::Frag(guarded(|| frag::make(fc)).ok().and_then(|r| r.ok()), vec![]),
            None => {
                let s = RecSink::default();
                let st = s.0.clone();
                Inst::Prog(builder(&p.cfg, s).build().ok(), st)
            }
        }
    }
    fn step(&mut self, op: &AnyOp) -> String {
        match (self, op) {
            (Inst::Prog(m, _), AnyOp::P(o)) => res_str(&apply(m, o)),
            (Inst::Frag(m, b), AnyOp::F(o)) => frag_step(m, o, b),
            _ => "mismatched-op".into(),
        }
    }
    fn bytes(&self) -> Vec<u8> {
        match self {
            Inst::Prog(_, st) => st.borrow().bytes.clone(),
            Inst::Frag(_, b) => b.clone(),
        }
    }
}

fn same_thread_part(t: &mut Tally) {
    let progs = all_programs();
    let solos: Vec<(Vec<String>, Vec<u8>)> = progs
        .iter()
        .map(|p| {
            let mut i = Inst::new(p);
            let r: Vec<String> = any_calls(p).iter().map(|o| i.step(o)).collect();
            (r, i.bytes())
        })
        .collect();
    // the progressive solos must agree with the plain history runner used everywhere else
    for (p, s) in progs.iter().zip(&solos) {
        if p.fcfg.is_none() {
            let ex = crate::run::run(&p.cfg, &calls_of(p));
            let r: Vec<String> = ex.results.iter().map(res_str).collect();
            if (r, ex.bytes) != *s {
                t.violation("C17/instances-on-one-thread-interfere", (199, 0), || format!("program {}: two solo runs on one thread differ", p.name), || json!({"engine": "E4-same-thread", "a": p.name, "b": p.name, "interleaving": []}));
            }
        }
    }
    // every program moved to another thread after each prefix of its calls
    for (pi, p) in progs.iter().enumerate() {
        let calls = any_calls(p);
        for cut in 0..=calls.len() {
            t.evaluations += 1;
            let mut inst = Inst::new(p);
            let mut r: Vec<String> = calls[..cut].iter().map(|o| inst.step(o)).collect();
            let rest: Vec<AnyOp> = calls[cut..].to_vec();
            let moved = ForceSend(inst);
            let (r2, b) = std::thread::spawn(move || {
                oracle::report::quiet_panics();
                let mut moved = moved;
                let r2: Vec<String> = rest.iter().map(|o| moved.0.step(o)).collect();
                (r2, moved.0.bytes())
            })
            .join()
            .expect("moved instance");
            r.extend(r2);
            t.transitions += calls.len() as u64;
            if (r, b) != solos[pi] {
                t.violation("C17/moved-between-threads-changes-output", (198, (pi * 100 + cut) as u64), || format!("program {} moved to another thread after {cut} calls differs from its solo run", p.name), || json!({"engine": "E4-same-thread", "a": p.name, "b": p.name, "interleaving": [], "moved_after": cut}));
            }
        }
    }
    let mut k = 0u64;
    for i in 0..progs.len() {
        for j in 0..progs.len() {
            let (ca, cb) = (any_calls(&progs[i]), any_calls(&progs[j]));
            for il in interleavings(ca.len(), cb.len()) {
                k += 1;
                t.evaluations += 1;
                t.states += 1;
                let mut ma = Inst::new(&progs[i]);
                let mut mb = Inst::new(&progs[j]);
                let (mut ra, mut rb) = (vec![], vec![]);
                let (mut ia, mut ib) = (0, 0);
                for &first in &il {
                    if first {
                        ra.push(ma.step(&ca[ia]));
                        ia += 1;
                    } else {
                        rb.push(mb.step(&cb[ib]));
                        ib += 1;
                    }
                    t.transitions += 1;
                }
                let (ba, bb) = (ma.bytes(), mb.bytes());
                if (ra, ba) != solos[i] || (rb, bb) != solos[j] {
                    t.violation("C17/instances-on-one-thread-interfere", (200, k), || format!("programs {} and {} interleaved as {il:?} on one thread: an instance's results or bytes differ from its solo run", progs[i].name, progs[j].name), || json!({"engine": "E4-same-thread", "a": progs[i].name, "b": progs[j].name, "interleaving": il}));
                }
            }
        }
    }
    t.count("same_thread_interleavings", k);
}

/// A muxer whose finish fails (every write call of its fault-free run failing in turn, or cut
/// short after half a buffer) must leave nothing behind for the next muxer on the same thread:
/// each victim program is run after the failed neighbour - either entirely, or with only its
/// finish (and later calls) after it - and compared with its solo run.
fn failed_neighbour_part(t: &mut Tally) {
    use crate::faults::{histories, run_faulty, Ans, Script};
    let progs = programs();
    let mut victims: Vec<(String, Cfg, Vec<Op>)> = progs.iter().map(|p| (p.name.to_string(), p.cfg.clone(), calls_of(p))).collect();
    let hs = histories();
    let mut k = 0u64;
    for (name, cfg, ops) in &hs {
        let mut ops = ops.clone();
        if !ops.iter().any(|o| o.is_finish()) {
            ops.push(Op::FinishInPlace);
        }
        let calls = run_faulty(cfg, &ops, &Script::default()).log.len();
        // the neighbour's own history, fault-free, is a victim too (same configuration: a cache
        // keyed by configuration or sizes would collide)
        victims.truncate(progs.len());
        victims.push((format!("{name} (fault-free twin)"), cfg.clone(), ops.clone()));
        let solos: Vec<(Vec<String>, Vec<u8>)> = victims
            .iter()
            .map(|(_, c, o)| {
                let ex = crate::run::run(c, o);
                (ex.results.iter().map(res_str).collect(), ex.bytes)
            })
            .collect();
        for call in 0..calls {
            for script in [Script { answers: vec![(call, Ans::ErrOther)], budget: None }, Script { answers: vec![(call, Ans::Half), (call + 1, Ans::ErrKind(21))], budget: None }] {
                for (vi, (vname, vcfg, vops)) in victims.iter().enumerate() {
                    let split_at = vops.iter().position(|o| o.is_finish()).unwrap_or(vops.len());
                    for split in [0usize, split_at] {
                        k += 1;
                        t.evaluations += 1;
                        t.states += 1;
                        let s = RecSink::default();
                        let st = s.0.clone();
                        let mut m = builder(vcfg, s).build().ok();
                        let mut r: Vec<String> = vops[..split].iter().map(|o| res_str(&apply(&mut m, o))).collect();
                        let failed = run_faulty(cfg, &ops, &script);
                        r.extend(vops[split..].iter().map(|o| res_str(&apply(&mut m, o))));
                        t.transitions += (vops.len() + ops.len()) as u64;
                        let b = st.borrow().bytes.clone();
                        if (r, b) != solos[vi] {
                            t.violation("C17/failed-neighbour-on-the-thread-changes-output", (300, k), || format!("{vname} run on the thread on which {name} had just failed at sink write call {call} ({:?}; neighbour's last result {:?}) differs from its solo run (victim calls before the neighbour: {split})", script.answers, failed.results.last().map(res_str)), || json!({"engine": "E4-failed-neighbour", "neighbour": name, "victim": vname, "call": call, "split": split}));
                        }
                    }
                }
            }
        }
    }
    t.count("failed_neighbour_runs", k);
}

// ---------------------------------------------------------------------------------------------
// equivalent API paths, sink types, move between threads
// ---------------------------------------------------------------------------------------------

fn run_on<W: Write>(b: MuxerBuilder<W>, ops: &[Op], fin: &Op) -> Vec<String> {
    let mut m = b.build().ok();
    let mut r: Vec<String> = ops.iter().map(|o| res_str(&apply(&mut m, o))).collect();
    // statistics are compared separately; the unit-returning finishers return Ok
    let f = apply(&mut m, fin);
    r.push(if f.is_ok() { "Ok".into() } else { res_str(&f) });
    r
}

fn paths_for(cfg: &Cfg, ops: &[Op], order: (u64, u64), t: &mut Tally) {
    let reference = {
        let s = RecSink::default();
        let st = s.0.clone();
        let r = run_on(builder(cfg, s), ops, &Op::FinishInPlace);
        let b = st.borrow().bytes.clone();
        (r, b)
    };
    t.evaluations += 1;
    t.outcome(oracle::report::h64(&reference.1));
    let mut variants: Vec<(&str, (Vec<String>, Vec<u8>))> = vec![];
    // second instance, same path
    {
        let s = RecSink::default();
        let st = s.0.clone();
        let r = run_on(builder(cfg, s), ops, &Op::FinishInPlace);
        variants.push(("second-instance", (r, st.borrow().bytes.clone())));
    }
    // all finish entry points
    for (name, fin) in [("finish", Op::Finish), ("flush", Op::Flush), ("finish_with_stats", Op::FinishStats), ("finish_in_place_with_stats", Op::FinishInPlaceStats)] {
        let s = RecSink::default();
        let st = s.0.clone();
        let r = run_on(builder(cfg, s), ops, &fin);
        variants.push((name, (r, st.borrow().bytes.clone())));
    }
    // builder aliases
    {
        let s = RecSink::default();
        let st = s.0.clone();
        let mut b = MuxerBuilder::new(s).set_video_track(vcodec(cfg.codec), cfg.width, cfg.height, 30.0);
        if let Some(a) = &cfg.audio {
            b = b.set_audio_track(acodec(a.codec), a.rate, a.channels);
        }
        if let Some(m) = &cfg.meta {
            // with_metadata(Metadata{title}) then set_create_time + set_language
            if let Some(t) = &m.title {
                b = b.with_metadata(Metadata::new().with_title(t.clone()));
            }
            if let Some(tm) = m.time {
                b = b.set_create_time(tm);
            }
            if let Some(l) = &m.lang {
                b = b.set_language(l.clone());
            }
        }
        let r = run_on(b.with_fast_start(cfg.fast_start), ops, &Op::FinishInPlace);
        variants.push(("builder-aliases", (r, st.borrow().bytes.clone())));
    }
    // audio codec None == no audio call (only when no audio configured)
    if cfg.audio.is_none() {
        let s = RecSink::default();
        let st = s.0.clone();
        let mut b = MuxerBuilder::new(s).video(vcodec(cfg.codec), cfg.width, cfg.height, 30.0).audio(AudioCodec::None, 12345, 7);
        if let Some(m) = &cfg.meta {
            b = b.with_metadata(metadata(m));
        }
        let r = run_on(b.with_fast_start(cfg.fast_start), ops, &Op::FinishInPlace);
        variants.push(("audio-none", (r, st.borrow().bytes.clone())));
    }
    // sink types
    {
        let mut vbuf: Vec<u8> = vec![];
        let r = run_on(builder(cfg, &mut vbuf), ops, &Op::FinishInPlace);
        variants.push(("sink:&mut Vec", (r, vbuf)));
        let cur = std::io::Cursor::new(Vec::<u8>::new());
        let shared = Arc::new(Mutex::new(Vec::new()));
        let r = run_on(builder(cfg, SharedSink { buf: shared.clone(), hook: Arc::new(|| {}) }), ops, &Op::FinishInPlace);
        variants.push(("sink:Arc<Mutex<Vec>>", (r, shared.lock().unwrap().clone())));
        let _ = cur;
        let shared2 = Arc::new(Mutex::new(Vec::new()));
        let bw = std::io::BufWriter::with_capacity(7, SharedSink { buf: shared2.clone(), hook: Arc::new(|| {}) });
        let r = run_on(builder(cfg, bw), ops, &Op::FinishInPlace);
        // BufWriter flushes on drop (run_on drops the muxer)
        variants.push(("sink:BufWriter(7)", (r, shared2.lock().unwrap().clone())));
        // sinks that legally accept only part of each buffer (pipes, sockets, rate limiters)
        for chunk in [1usize, 5] {
            let shared3 = Arc::new(Mutex::new(Vec::new()));
            let r = run_on(builder(cfg, ChunkSink { buf: shared3.clone(), chunk }), ops, &Op::FinishInPlace);
            variants.push((if chunk == 1 { "sink:1-byte-per-write" } else { "sink:5-bytes-per-write" }, (r, shared3.lock().unwrap().clone())));
        }
    }
    // built on this thread, written to halfway, moved to another thread, finished there
    {
        let shared = Arc::new(Mutex::new(Vec::new()));
        let mut m = builder(cfg, SharedSink { buf: shared.clone(), hook: Arc::new(|| {}) }).build().ok();
        let half = ops.len() / 2;
        let mut r: Vec<String> = ops[..half].iter().map(|o| res_str(&apply(&mut m, o))).collect();
        let rest: Vec<Op> = ops[half..].to_vec();
        let (tx, rx) = std::sync::mpsc::channel();
        tx.send(ForceSend(m)).unwrap();
        let r2 = std::thread::spawn(move || {
            oracle::report::quiet_panics();
            let mut m = rx.recv().unwrap().0;
            let mut r: Vec<String> = rest.iter().map(|o| res_str(&apply(&mut m, o))).collect();
            let f = apply(&mut m, &Op::FinishInPlace);
            r.push(if f.is_ok() { "Ok".into() } else { res_str(&f) });
            r
        })
        .join()
        .unwrap();
        r.extend(r2);
        variants.push(("moved-between-threads", (r, shared.lock().unwrap().clone())));
    }
    // a sink whose flush() fails (a buffer in front of a closed pipe): whatever the muxer makes of
    // that, every finish entry point makes the same of it
    {
        struct FlushFails(Arc<Mutex<Vec<u8>>>);
        impl Write for FlushFails {
            fn write(&mut self, b: &[u8]) -> std::io::Result<usize> {
                self.0.lock().unwrap().extend_from_slice(b);
                Ok(b.len())
            }
            fn flush(&mut self) -> std::io::Result<()> {
                Err(std::io::Error::other("flush failed"))
            }
        }
        let mut got: Vec<(&str, Vec<String>, Vec<u8>)> = vec![];
        for (name, fin) in [("finish_in_place", Op::FinishInPlace), ("finish", Op::Finish), ("flush", Op::Flush), ("finish_with_stats", Op::FinishStats), ("finish_in_place_with_stats", Op::FinishInPlaceStats)] {
            let shared = Arc::new(Mutex::new(Vec::new()));
            let r = run_on(builder(cfg, FlushFails(shared.clone())), ops, &fin);
            let bytes = shared.lock().unwrap().clone();
            got.push((name, r, bytes));
        }
        t.evaluations += 1;
        for g in &got[1..] {
            if g.1 != got[0].1 || g.2 != got[0].2 {
                let what = if g.2 != got[0].2 { "bytes" } else { "results" };
                t.violation(&format!("C17/path/flush-failing-sink/{}/{what}", g.0), order, || format!("{} | {} | on a sink whose flush fails {} answers {:?}, finish_in_place {:?}", cfg.short(), brief_ops(ops), g.0, g.1.last(), got[0].1.last()), || json!({"engine": "E1-paths", "cfg": cfg, "ops": ops, "path": "flush-failing-sink"}));
            }
        }
    }
    // flush is finish under another name in every state: also on a muxer that an in-place finish
    // has already completed (and on one whose history ends in a second in-place finish)
    for extra in [vec![Op::FinishInPlace], vec![Op::FinishInPlaceStats, Op::FinishInPlace]] {
        let mut ops2 = ops.to_vec();
        ops2.extend(extra.iter().cloned());
        let mut got = vec![];
        for fin in [Op::Finish, Op::Flush] {
            let s = RecSink::default();
            let st = s.0.clone();
            let r = run_on(builder(cfg, s), &ops2, &fin);
            got.push((r, st.borrow().bytes.clone()));
        }
        t.evaluations += 1;
        if got[0] != got[1] {
            let what = if got[0].1 != got[1].1 { "bytes" } else { "results" };
            t.violation(&format!("C17/path/flush-vs-finish-after-finish/{what}"), order, || format!("{} | {} | finish answers {:?}, flush answers {:?}", cfg.short(), brief_ops(&ops2), got[0].0.last(), got[1].0.last()), || json!({"engine": "E1-paths", "cfg": cfg, "ops": ops2, "path": "flush-vs-finish-after-finish"}));
        }
    }
    for (name, got) in variants {
        t.evaluations += 1;
        t.transitions += ops.len() as u64 + 1;
        if got != reference {
            let what = if got.1 != reference.1 { "bytes" } else { "results" };
            t.violation(&format!("C17/path/{name}/{what}"), order, || format!("{} | {} | path {name}: {} vs reference {} bytes; results {:?} vs {:?}", cfg.short(), brief_ops(ops), got.1.len(), reference.1.len(), got.0.last(), reference.0.last()), || json!({"engine": "E1-paths", "cfg": cfg, "ops": ops, "path": name}));
        }
    }
}

/// the automatic audio clock next to video written with explicit timestamps: encode_audio(data, n)
/// is write_audio(clock, data) with clock = the running sum of n / rate, whatever the video
/// track's history (a video track that starts late makes both refuse the early audio alike)
fn mixed_clock_part(t: &mut Tally) {
    let mut k = 0u64;
    for (ac, rate, samples) in [(ACodec::AacLc, 48_000u32, 1024u32), (ACodec::Opus, 48_000, 960), (ACodec::AacLc, 44_100, 1024)] {
        for v0 in [0.0f64, 0.02, 0.05, 0.5] {
            for with_dts in [false, true] {
                for fast in [true, false] {
                    let mut cfg = Cfg::basic(VCodec::H264, Some(ac), fast);
                    if let Some(a) = cfg.audio.as_mut() {
                        a.rate = rate;
                    }
                    let vd = Bytes::new(video_frame(VCodec::H264, true, true, 1, 5).0);
                    let first = if with_dts { Op::WVD { pts: T(v0), dts: T(v0), data: vd, key: true } } else { Op::WV { pts: T(v0), data: vd, key: true } };
                    let (mut conv, mut expl) = (vec![first.clone()], vec![first]);
                    let mut clock = 0.0f64;
                    let mut accepted_clock = 0.0f64;
                    for j in 0..6u32 {
                        let ad = Bytes::new(audio_frame(ac, j, 5).0);
                        conv.push(Op::EA { data: ad.clone(), samples });
                        // the explicit twin submits the same clock value; a refused call does not
                        // advance the automatic clock, so the twin repeats the value until accepted
                        expl.push(Op::WA { pts: T(accepted_clock), data: ad });
                        if accepted_clock >= v0 {
                            clock += samples as f64 / rate as f64;
                            accepted_clock = clock;
                        }
                    }
                    k += 1;
                    t.evaluations += 1;
                    let run = |ops: &[Op]| {
                        let s = RecSink::default();
                        let st = s.0.clone();
                        let r = run_on(builder(&cfg, s), ops, &Op::FinishInPlace);
                        let b = st.borrow().bytes.clone();
                        (r.iter().map(|x| x.starts_with("Ok")).collect::<Vec<bool>>(), b)
                    };
                    let (a, b) = (run(&conv), run(&expl));
                    t.outcome(oracle::report::h64(&a.1));
                    if a != b {
                        let what = if a.0 != b.0 { "results" } else { "bytes" };
                        t.violation(&format!("C17/path/automatic-audio-clock-vs-explicit/{what}"), (310, k), || format!("{} first video at {v0} s: encode_audio accepts {:?}, write_audio at the same clock values {:?} ({} vs {} bytes)", cfg.short(), a.0, b.0, a.1.len(), b.1.len()), || json!({"engine": "E1-mixed-clock", "cfg": cfg, "first_video": v0}));
                    }
                }
            }
        }
    }
}

/// convenience writes vs explicit timestamps at the same tick values
fn convenience_part(t: &mut Tally, long: usize) {
    let mut k = 0u64;
    for codec in oracle::frames::VCODECS {
        for (ac, rate) in [(None, 0u32), (Some(ACodec::AacLc), 44100), (Some(ACodec::Opus), 48000), (Some(ACodec::AacLc), 48000)] {
            // (the last: frame durations of minutes and hours - a clock kept in less than f64 shows there)
            for (durs, n) in [(vec![33u32], 5usize), (vec![33, 34, 33], 6), (vec![1, 1000, 40], 6), (vec![40], long), (vec![600_001, 123_457, 16_777_217, 40], 5)] {
              // audio frame lengths: constant, Opus 10/20/40/60 ms, alternating AAC frame sizes;
              // with and without rejected convenience calls (empty data) in between, which must
              // leave the automatic clocks alone (C05) so that the explicit path simply omits them
              for (spat, rejects) in [(vec![1024u32], false), (vec![480, 960, 1920, 2880], false), (vec![1024, 2048], false), (vec![1024], true), (vec![960, 480], true)] {
                if n > 10 && (spat.len() > 1 || rejects) {
                    continue;
                }
                let mut cfg = Cfg::basic(codec, ac, n % 2 == 0);
                if let Some(a) = cfg.audio.as_mut() {
                    a.rate = rate;
                }
                let mut conv = vec![];
                let mut expl = vec![];
                let mut inserted: Vec<usize> = vec![];
                let mut ms_total: u64 = 0;
                let mut samples_total: u64 = 0;
                let mut ok = true;
                for i in 0..n {
                    let key = i == 0 || (codec != VCodec::Av1 && i % 4 == 0);
                    let (mut vd, _) = video_frame(codec, key, i == 0, i as u32 + 1, 4 + i % 3);
                    if codec == VCodec::H265 && key && i > 0 {
                        // the other random-access picture types of H.265: IDR_N_LP (20), CRA (21)
                        // and, as a non-key control, BLA_W_LP (16): both paths must agree on them
                        let ty: u8 = [20u8, 21, 16][(i / 4) % 3];
                        if let Some(p) = vd.windows(2).position(|w| [0x26u8, 0x28, 0x2a].contains(&w[0]) && w[1] == 0x01) {
                            vd[p] = ty << 1;
                        }
                    }
                    let vd = Bytes::new(vd);
                    let d = durs[i % durs.len()];
                    if rejects && i % 2 == 1 {
                        conv.push(Op::EV { data: Bytes::new(vec![]), dur_ms: 500 });
                        inserted.push(conv.len() - 1);
                        if ac.is_some() {
                            conv.push(Op::EA { data: Bytes::new(vec![]), samples: 4096 });
                            inserted.push(conv.len() - 1);
                        }
                    }
                    conv.push(Op::EV { data: vd.clone(), dur_ms: d });
                    let pts = ms_total as f64 / 1000.0;
                    ok &= tick_is_robust(pts) && tick(pts) == ms_total * 90;
                    // the key flag the convenience path derives (AV1: first frame only)
                    let dk = oracle::model::derived_key(codec, &vd, i as u64);
                    expl.push(Op::WV { pts: T(pts), data: vd, key: dk });
                    ms_total += d as u64;
                    if let Some(a) = ac {
                        let ad = Bytes::new(audio_frame(a, i as u32, 5).0);
                        let ns = spat[i % spat.len()];
                        conv.push(Op::EA { data: ad.clone(), samples: ns });
                        let apts = samples_total as f64 / rate as f64;
                        ok &= tick_is_robust(apts);
                        expl.push(Op::WA { pts: T(apts), data: ad });
                        samples_total += ns as u64;
                    }
                }
                k += 1;
                if !ok {
                    t.count("skipped_tie_sensitive_timestamps", 1);
                    continue;
                }
                let e1 = crate::run::run_finished(&cfg, &conv);
                let e2 = crate::run::run_finished(&cfg, &expl);
                t.evaluations += 2;
                t.transitions += (conv.len() + expl.len()) as u64;
                t.outcome(oracle::report::h64(&e1.bytes));
                // audio may be rejected in both paths alike (e.g. audio before video at equal
                // cursor): compare outcomes position by position
                let r1: Vec<bool> = e1.results.iter().enumerate().filter(|(i, _)| !inserted.contains(i)).map(|(_, r)| r.is_ok()).collect();
                let r2: Vec<bool> = e2.results.iter().map(|r| r.is_ok()).collect();
                if inserted.iter().any(|&i| e1.results[i].is_ok()) {
                    t.violation("C17/path/convenience-accepts-empty-frame", (300, k), || format!("{}: encode_video/encode_audio accepted an empty frame", cfg.short()), || json!({"engine": "E1-convenience", "cfg": cfg}));
                }
                if r1 != r2 || e1.bytes != e2.bytes {
                    let pos = e1.bytes.iter().zip(&e2.bytes).position(|(a, b)| a != b);
                    t.violation("C17/path/convenience-vs-explicit", (300, k), || format!("{} durations {durs:?} x {n} frames, audio frame lengths {spat:?}, rejected calls in between: {rejects}: encode_video/encode_audio and explicit writes at the same ticks differ (accept vectors equal: {}, first differing byte {pos:?})", cfg.short(), r1 == r2), || json!({"engine": "E1-convenience", "cfg": cfg, "durations_ms": durs, "frames": n, "audio_samples": spat, "rejected_calls": rejects}));
                }
              }
            }
        }
    }
}

// ---------------------------------------------------------------------------------------------
// wall clock
// ---------------------------------------------------------------------------------------------

/// digest of a fixed set of runs; executed in child processes under different clock offsets
pub fn child_digest() -> i32 {
    let mut h = Fnv::new();
    for p in programs() {
        let ex = crate::run::run(&p.cfg, &calls_of(&p));
        h.bytes(&ex.bytes);
        for r in &ex.results {
            h.str(&res_str(r));
        }
    }
    // metadata with explicit creation times (0 included: it is a time like any other, not a
    // request for the current time)
    for tm in [0u64, 1, 86_400 * 365] {
        for fast in [true, false] {
            let cfg = Cfg { meta: Some(MMeta { title: Some("clock".into()), time: Some(tm), lang: None }), ..Cfg::basic(VCodec::H264, None, fast) };
            let (d, _) = video_frame(VCodec::H264, true, true, 1, 5);
            let ex = crate::run::run(&cfg, &[Op::WV { pts: T(0.0), data: Bytes::new(d), key: true }, Op::FinishInPlace]);
            h.bytes(&ex.bytes);
        }
    }
    for codec in oracle::frames::VCODECS {
        let fc = crate::frag::FCfg { codec, via_builder: true, timescale: 90000, fragment_ms: 2000, start_dts: 0, width: 640, height: 480, ps_len: 10 };
        if let Ok(mut m) = crate::frag::make(&fc) {
            h.bytes(&m.init_segment());
            let _ = m.write_video(0, 0, &[1, 2, 3], true);
            if let Some(s) = m.flush_segment() {
                h.bytes(&s);
            }
        }
    }
    let now = std::time::SystemTime::now().duration_since(std::time::UNIX_EPOCH).map(|d| d.as_secs()).unwrap_or(0);
    println!("DIGEST {:016x} NOW {now}", h.0);
    0
}

fn clock_part(t: &mut Tally) -> Result<(), String> {
    let exe = std::env::current_exe().map_err(|e| e.to_string())?;
    let shim = format!("{}/shim/clock.so", oracle::report::root());
    if !std::path::Path::new(&shim).exists() {
        return Err(format!("clock shim {shim} missing (built by ./check --build)"));
    }
    let mut outs = vec![];
    for off in ["0", "315360000"] {
        let o = std::process::Command::new(&exe).arg("--c17-child").env("LD_PRELOAD", &shim).env("VERIF_CLOCK_OFFSET", off).output().map_err(|e| e.to_string())?;
        let s = String::from_utf8_lossy(&o.stdout).to_string();
        let mut it = s.split_whitespace();
        let (_, dig, _, now) = (it.next(), it.next().unwrap_or("").to_string(), it.next(), it.next().unwrap_or("0").parse::<u64>().unwrap_or(0));
        if dig.is_empty() {
            return Err(format!("clock child produced no digest: {s}"));
        }
        outs.push((dig, now));
    }
    t.evaluations += 2;
    if outs[1].1 < outs[0].1 + 300_000_000 {
        return Err(format!("the clock shim does not reach SystemTime::now in the child (now = {} / {})", outs[0].1, outs[1].1));
    }
    t.count("clock_offset_seen_by_child_secs", outs[1].1 - outs[0].1);
    if outs[0].0 != outs[1].0 {
        t.violation("C17/wall-clock-dependent", (400, 0), || format!("outputs differ between wall-clock offsets 0 and +10 years: digests {} vs {}", outs[0].0, outs[1].0), || json!({"engine": "E-clock", "offsets": [0, 315360000]}));
    }
    Ok(())
}

/// closure assumption printed in the evidence: shared mutable state outside invariant_ppt.rs
fn static_scan() -> Vec<String> {
    let mut hits = vec![];
    fn walk(dir: &std::path::Path, hits: &mut Vec<String>) {
        let Ok(rd) = std::fs::read_dir(dir) else { return };
        for e in rd.flatten() {
            let p = e.path();
            if p.is_dir() {
                walk(&p, hits);
            } else if p.extension().map(|x| x == "rs").unwrap_or(false) {
                let Ok(s) = std::fs::read_to_string(&p) else { continue };
                let mut in_tests = false;
                for (i, l) in s.lines().enumerate() {
                    if l.contains("#[cfg(test)]") {
                        in_tests = true;
                    }
                    if in_tests {
                        continue;
                    }
                    let t = l.trim_start();
                    if t.starts_with("//") {
                        continue;
                    }
                    for pat in ["static mut", "thread_local!", "Mutex<", "RwLock<", "Atomic", "OnceLock", "OnceCell", "lazy_static", "RefCell<", "Cell<", "SystemTime::now", "Instant::now"] {
                        if l.contains(pat) {
                            hits.push(format!("{}:{}: {}", p.display(), i + 1, pat));
                        }
                    }
                }
            }
        }
    }
    walk(std::path::Path::new("/repo/src"), &mut hits);
    hits.retain(|h| !h.contains("/src/bin/"));
    hits
}

/// The fragmented entry point behind the builder aliases: `video` and `set_video_track` are the
/// same call, also when the track is declared twice (another codec first) with the parameter sets
/// supplied before, between or after the declarations. Each chain is built once with either alias
/// in either position; the outcome (Ok / the error), the init segment and a media segment agree.
fn fragment_builder_alias_part(t: &mut Tally) {
    use muxide::api::{MuxerBuilder, VideoCodec};
    let codecs = [VideoCodec::H264, VideoCodec::H265, VideoCodec::Av1, VideoCodec::Vp9];
    let vc = |c: VideoCodec| match c {
        VideoCodec::H264 => VCodec::H264,
        VideoCodec::H265 => VCodec::H265,
        VideoCodec::Av1 => VCodec::Av1,
        _ => VCodec::Vp9,
    };
    let params = |b: MuxerBuilder<Vec<u8>>, c: VideoCodec| -> MuxerBuilder<Vec<u8>> {
        match c {
            VideoCodec::H264 => b.with_sps(frag::sps_of(VCodec::H264, 10)).with_pps(frag::pps_of(VCodec::H264, 6)),
            VideoCodec::H265 => b.with_vps(frag::vps_of(8)).with_sps(frag::sps_of(VCodec::H265, 10)).with_pps(frag::pps_of(VCodec::H265, 6)),
            VideoCodec::Av1 => b.with_av1_sequence_header(oracle::frames::av1_seq_obu(&oracle::frames::SeqHdr::default().normalised())),
            _ => b.with_vp9_config(frag::vp9cfg()),
        }
    };
    let declare = |b: MuxerBuilder<Vec<u8>>, c: VideoCodec, alias: bool, w: u32| if alias { b.set_video_track(c, w, 480, 30.0) } else { b.video(c, w, 480, 30.0) };
    let mut k = 0u64;
    for &real in &codecs {
        for first in std::iter::once(None).chain(codecs.iter().map(|&c| Some(c))) {
            // where the real codec's parameter sets are supplied: 0 before every declaration,
            // 1 between the two declarations, 2 after the last one
            for pos in 0..3u8 {
                let mut outs: Vec<(String, String, Vec<u8>, Vec<u8>)> = vec![];
                for alias_first in [false, true] {
                    for alias_last in [false, true] {
                        if first.is_none() && alias_first {
                            continue;
                        }
                        k += 1;
                        t.evaluations += 1;
                        let mut b = MuxerBuilder::new(Vec::<u8>::new());
                        if pos == 0 {
                            b = params(b, real);
                        }
                        if let Some(d) = first {
                            b = declare(b, d, alias_first, 320);
                        }
                        if pos == 1 {
                            b = params(b, real);
                        }
                        b = declare(b, real, alias_last, 640);
                        if pos == 2 {
                            b = params(b, real);
                        }
                        let r = guarded(|| b.new_with_fragment());
                        let (res, init, seg) = match r {
                            Err(p) => (format!("panic:{p}"), vec![], vec![]),
                            Ok(Err(e)) => (format!("Err({e:?})"), vec![], vec![]),
                            Ok(Ok(mut m)) => {
                                let init = m.init_segment();
                                let _ = m.write_video(0, 0, &[1, 2, 3], true);
                                let _ = m.write_video(3000, 3000, &[4, 5], false);
                                ("Ok".to_string(), init, m.flush_segment().unwrap_or_default())
                            }
                        };
                        outs.push((format!("first {} last {}", if alias_first { "set_video_track" } else { "video" }, if alias_last { "set_video_track" } else { "video" }), res, init, seg));
                    }
                }
                t.outcome(oracle::report::h64(&outs[0].2));
                for o in &outs[1..] {
                    if (&o.1, &o.2, &o.3) != (&outs[0].1, &outs[0].2, &outs[0].3) {
                        let what = if o.1 != outs[0].1 { "results" } else { "bytes" };
                        t.violation(&format!("C17/fragment-builder-aliases/{what}"), (500, k), || format!("{:?} declared after {:?}, parameter sets at position {pos}: [{}] gives {} ({} + {} bytes), [{}] gives {} ({} + {} bytes)", vc(real), first.map(vc), outs[0].0, outs[0].1, outs[0].2.len(), outs[0].3.len(), o.0, o.1, o.2.len(), o.3.len()), || json!({"engine": "E1-frag-aliases", "real": format!("{:?}", vc(real)), "first": format!("{:?}", first.map(vc)), "pos": pos}));
                    }
                }
            }
        }
    }
    t.count("fragment_builder_alias_chains", k);
}

/// Builder call order: the built muxer depends on the *set* of settings, not on the order in
/// which the setters were called nor on which alias was used. Every permutation of the setter
/// calls x every alias choice is compared byte-for-byte with the canonical order.
pub fn builder_orders_part(t: &mut Tally, prop: &str) {
    #[derive(Clone, Copy, Debug)]
    enum S {
        Video(bool),
        Audio(bool),
        Fast,
        Meta(u8),
    }
    let mut k = 0u64;
    for codec in [VCodec::H264, VCodec::Vp9] {
        for fast in [true, false] {
            // audio settings: none; AAC at the usual rate with explicit timestamps; Opus configured at
            // a rate other than its fixed 48 kHz and AAC at 44.1 kHz, both timed by the automatic
            // clocks (the only place where the configured rate of such a track shows)
            for (audio, rate, conv) in [(None, 0u32, false), (Some(ACodec::AacLc), 48_000, false), (Some(ACodec::Opus), 24_000, true), (Some(ACodec::AacLc), 44_100, true)] {
                for meta in [false, true] {
                    if conv && (meta || codec != VCodec::H264) {
                        continue;
                    }
                    let mut cfg = Cfg { meta: if meta { Some(MMeta { title: Some("order".into()), time: Some(86_400 * 365), lang: Some("deu".into()) }) } else { None }, ..Cfg::basic(codec, audio, fast) };
                    if let (Some(a), Some(ac)) = (cfg.audio.as_mut(), audio) {
                        *a = oracle::model::AudioCfg { codec: ac, rate, channels: if rate == 24_000 { 1 } else { 2 } };
                    }
                    let mut ops = vec![];
                    for i in 0..2u32 {
                        let data = Bytes::new(video_frame(codec, i == 0, i == 0, i + 1, 5).0);
                        ops.push(if conv { Op::EV { data, dur_ms: 40 } } else { Op::WV { pts: T(i as f64 / 30.0), data, key: i == 0 } });
                    }
                    if let Some(a) = audio {
                        if conv {
                            for j in 0..3u32 {
                                ops.push(Op::EA { data: Bytes::new(audio_frame(a, j, 6).0), samples: if a == ACodec::Opus { 480 } else { 1024 } });
                            }
                        } else {
                            ops.push(Op::WA { pts: T(0.01), data: Bytes::new(audio_frame(a, 1, 6).0) });
                        }
                    }
                    let reference = {
                        let s = RecSink::default();
                        let st = s.0.clone();
                        let r = run_on(builder(&cfg, s), &ops, &Op::FinishInPlace);
                        let b = st.borrow().bytes.clone();
                        (r, b)
                    };
                    // setter lists: one per alias choice and metadata style
                    let mut lists: Vec<Vec<S>> = vec![];
                    for va in [false, true] {
                        for aa in [false, true] {
                            for ms in 0..3u8 {
                                if (audio.is_none() && aa) || (!meta && ms > 0) {
                                    continue;
                                }
                                let mut l = vec![S::Video(va), S::Fast];
                                if audio.is_some() {
                                    l.push(S::Audio(aa));
                                }
                                if meta {
                                    l.push(S::Meta(ms));
                                }
                                lists.push(l);
                            }
                        }
                    }
                    for l in &lists {
                        for perm in hist::permutations(l.len()) {
                            let order: Vec<S> = perm.iter().map(|&i| l[i]).collect();
                            k += 1;
                            t.evaluations += 1;
                            let s = RecSink::default();
                            let st = s.0.clone();
                            let mut b = MuxerBuilder::new(s);
                            for step in &order {
                                b = match *step {
                                    S::Video(false) => b.video(vcodec(codec), cfg.width, cfg.height, 30.0),
                                    S::Video(true) => b.set_video_track(vcodec(codec), cfg.width, cfg.height, 30.0),
                                    S::Audio(al) => {
                                        let a = cfg.audio.as_ref().unwrap();
                                        if al { b.set_audio_track(acodec(a.codec), a.rate, a.channels) } else { b.audio(acodec(a.codec), a.rate, a.channels) }
                                    }
                                    S::Fast => b.with_fast_start(fast),
                                    // style 0: one with_metadata call; style 1: with_metadata(title) then the two setters
                                    S::Meta(0) => b.with_metadata(metadata(cfg.meta.as_ref().unwrap())),
                                    S::Meta(1) => b.with_metadata(Metadata::new().with_title("order")).set_create_time(86_400 * 365).set_language("deu"),
                                    // style 2: the two alias setters in the other order
                                    S::Meta(_) => b.with_metadata(Metadata::new().with_title("order")).set_language("deu").set_create_time(86_400 * 365),
                                };
                            }
                            let r = run_on(b, &ops, &Op::FinishInPlace);
                            let bytes = st.borrow().bytes.clone();
                            t.outcome(oracle::report::h64(&bytes));
                            if r != reference.0 || bytes != reference.1 {
                                let what = if r != reference.0 { "results" } else { "bytes" };
                                t.violation(&format!("{prop}/builder-order/{what}"), (3000, k), || format!("{}: setter order {order:?} gives different {what} than video, audio, with_metadata, with_fast_start (top-level layout or content differs; {} vs {} bytes)", cfg.short(), bytes.len(), reference.1.len()), || json!({"engine": "E1-builder-order", "cfg": cfg, "order": format!("{order:?}")}));
                            }
                        }
                    }
                    // "last call wins": a setter called twice, through either alias, leaves only
                    // the later value (audio codec None after a real codec = no audio)
                    for kind in 0..4usize {
                        for a1 in [false, true] {
                            for a2 in [false, true] {
                                for place in 0..2usize {
                                    if (kind == 2 && (a1 || a2)) || (kind == 3 && (!meta || a1)) {
                                        continue;
                                    }
                                    k += 1;
                                    t.evaluations += 1;
                                    let s = RecSink::default();
                                    let st = s.0.clone();
                                    let other = if codec == VCodec::H264 { VCodec::Vp9 } else { VCodec::H264 };
                                    let decoy = |b: MuxerBuilder<RecSink>| -> MuxerBuilder<RecSink> {
                                        match kind {
                                            0 => if a1 { b.set_video_track(vcodec(other), 320, 240, 25.0) } else { b.video(vcodec(other), 320, 240, 25.0) },
                                            1 => {
                                                let d = if audio == Some(ACodec::AacLc) { ACodec::Opus } else { ACodec::AacLc };
                                                if a1 { b.set_audio_track(acodec(d), 44100, 1) } else { b.audio(acodec(d), 44100, 1) }
                                            }
                                            2 => b.with_fast_start(!fast),
                                            _ => b.with_metadata(Metadata::new().with_title("decoy").with_language("fra").with_creation_time(1)),
                                        }
                                    };
                                    let mut b = MuxerBuilder::new(s);
                                    if place == 0 {
                                        b = decoy(b);
                                    }
                                    for step in 0..4usize {
                                        if place == 1 && step == kind {
                                            b = decoy(b);
                                        }
                                        let al = step == kind && a2;
                                        b = match step {
                                            0 => if al { b.set_video_track(vcodec(codec), cfg.width, cfg.height, 30.0) } else { b.video(vcodec(codec), cfg.width, cfg.height, 30.0) },
                                            1 => match &cfg.audio {
                                                Some(a) => if al { b.set_audio_track(acodec(a.codec), a.rate, a.channels) } else { b.audio(acodec(a.codec), a.rate, a.channels) },
                                                // no audio wanted: after a decoy the caller must be able to switch it off again
                                                None if kind == 1 => if al { b.set_audio_track(AudioCodec::None, 0, 0) } else { b.audio(AudioCodec::None, 0, 0) },
                                                None => b,
                                            },
                                            2 => b.with_fast_start(fast),
                                            _ => match &cfg.meta {
                                                Some(m) if al => b.with_metadata(Metadata::new().with_title(m.title.clone().unwrap())).set_create_time(m.time.unwrap()).set_language(m.lang.clone().unwrap()),
                                                Some(m) => b.with_metadata(metadata(m)),
                                                None => b,
                                            },
                                        };
                                    }
                                    let r = run_on(b, &ops, &Op::FinishInPlace);
                                    let bytes = st.borrow().bytes.clone();
                                    t.outcome(oracle::report::h64(&bytes) ^ 0x5a);
                                    if r != reference.0 || bytes != reference.1 {
                                        let what = if r != reference.0 { "results" } else { "bytes" };
                                        let names = ["video", "audio", "fast start", "metadata"];
                                        t.violation(&format!("{prop}/builder-override/{what}"), (3001, k), || format!("{}: {} set twice (decoy via {}, then the real value via {}; decoy {}): {what} differ from a builder given the real value only ({} vs {} bytes; results {:?} vs {:?})", cfg.short(), names[kind], if a1 { "the alias" } else { "the primary setter" }, if a2 { "the alias" } else { "the primary setter" }, if place == 0 { "first of all" } else { "directly before" }, bytes.len(), reference.1.len(), r, reference.0), || json!({"engine": "E1-builder-override", "cfg": cfg, "kind": names[kind], "decoy_alias": a1, "real_alias": a2, "place": place}));
                                    }
                                }
                            }
                        }
                    }
                }
            }
        }
    }
    t.count("builder_order_variants", k);
}

pub fn check(ctx: &Ctx) -> i32 {
    let mut tally = Tally::default();
    builder_orders_part(&mut tally, "C17");
    if let Err(e) = schedules_part(ctx, &mut tally) {
        eprintln!("E4 machinery failure: {e}");
        return 2;
    }
    same_thread_part(&mut tally);
    failed_neighbour_part(&mut tally);
    match send_probe() {
        Ok(()) => tally.count("send_probe_compiles", 1),
        Err(Some(log)) => {
            let first = log.lines().find(|l| l.contains("cannot be sent") || l.contains("E0277")).unwrap_or("").to_string();
            tally.violation("C17/auto-trait/muxer-not-send", (400, 0), || format!("harness/sendprobe does not compile: Muxer<W> for some W: Send, or FragmentedMuxer, is not Send ({first})"), || json!({"engine": "send-probe"}));
        }
        Err(None) => return 2,
    }
    // equivalent paths over a history set
    let (nv, na) = if ctx.thorough { (3, 2) } else { (2, 2) };
    let mut items = vec![];
    for cfg in hist::configs(false) {
        let specs: Vec<HistSpec> = hist::c01_specs(&cfg, nv, na, false).into_iter().filter(|s| s.vsize_pattern == 0 && matches!(s.pts_mode, PtsMode::Plain | PtsMode::Perm(_)) && s.dts_pattern != 1).collect();
        items.push((cfg, specs));
    }
    let t2 = par_items(&items, ctx.seed, |idx, (cfg, specs), t| {
        for (k, s) in specs.iter().enumerate() {
            let ops = hist::build_ops(cfg, s);
            paths_for(cfg, &ops, (1000 + idx as u64, k as u64), t);
        }
    });
    tally.merge(t2);
    convenience_part(&mut tally, if ctx.thorough { 2000 } else { 400 });
    mixed_clock_part(&mut tally);
    fragment_builder_alias_part(&mut tally);
    if let Err(e) = clock_part(&mut tally) {
        eprintln!("clock machinery failure: {e}");
        return 2;
    }
    let scan = static_scan();
    finish(
        ctx,
        &tally,
        Meta {
            level: "model_checking",
            rule: "thread schedules: real OS threads run under a baton scheduler with scheduling points before every public call, inside every sink write and around every invariant-log call; all schedules up to the stated preemption bound are enumerated by stateless DFS (counts in 'counters'), each program's results, output bytes and thread-local invariant log must equal its solo run, and replaying a schedule must reproduce its record; 4 threads: every order of whole programs; 8 and 16 threads: round-robin. Two of the six programs drive a FragmentedMuxer (builder H.264; FragmentConfig H.265 at 48 kHz from a non-zero start) and are scheduled next to progressive programs, next to each other and against themselves. Same thread: every interleaving at call granularity of every ordered pair of the 6 programs on one thread; and every victim program (the four progressive ones and the neighbour's fault-free twin) run on a thread on which a neighbour muxer's finish has just failed - 18 fault histories x every sink write call of the fault-free run x {error, half a buffer then error} x {whole victim afterwards, only its finish afterwards}. Equivalent paths: for every history of a bounded accepted-only set x 20 configurations, the output of a reference run is compared byte-for-byte with a second instance, the four other finish entry points, the builder aliases, audio codec None, six sink types (incl. sinks accepting 1 or 5 bytes per write), and a muxer moved to another thread halfway; builder order: every permutation of the setter calls (video, audio, fast start, metadata) x alias choices x 16 configurations against the canonical order, and every setter called twice (a decoy value, then the real one; either alias; audio codec None to switch audio off again); the fragmented entry point behind either alias (track declared once or twice - another codec first - with the parameter sets supplied before, between or after the declarations: same outcome, init segment and media segment); encode_video/encode_audio vs explicit writes at exactly computed ticks for duration patterns up to the long run, audio frame lengths {constant, 10/20/40/60 ms, alternating} and rejected convenience calls (empty frames) in between. Wall clock: the same digest of outputs under an LD_PRELOAD clock offset of 0 and +10 years (child processes). The auto-trait implication (Muxer<W>: Send for every W: Send; Sync likewise) is a generic function in this harness: it is the compiler's verdict, a build failure of the harness otherwise.".into(),
            bound: format!("preemption bounds as listed per setup in counters; thorough={}", ctx.thorough),
            exhaustive: true,
            assumptions: vec![
                "interleavings are explored at the stated scheduling points only; muxide contains no shared mutable state outside the thread-local invariant log (static scan below), so no finer-grained interleaving can change an observation".into(),
                "unsynchronised data races cannot be observed by a cooperative scheduler (that needs a race detector, another family); the scan shows no unsafe/static mut to race on".into(),
            ],
            extra: json!({"shared_state_scan_of_repo_src": scan, "note": "Muxer::new(writer, MuxerConfig) is documented in docs/contract.md but does not exist in the API, so no MuxerConfig path can be compared"}),
        },
    )
}

pub fn replay(case: &Value) -> i32 {
    match case["engine"].as_str() {
        Some("E4") => {
            let progs = all_programs();
            let assign: Vec<Vec<usize>> = serde_json::from_value(case["assign"].clone()).unwrap_or_default();
            let choices: Vec<usize> = serde_json::from_value(case["choices"].clone()).unwrap_or_default();
            let private = case["private_sinks"].as_bool().unwrap_or(false);
            if assign.is_empty() {
                println!("no schedule recorded in this case");
                return 2;
            }
            let reference = solo(&progs);
            match run_schedule(&progs, &assign, Policy::Prefix(choices.clone()), private) {
                Ok((pts, obs)) => {
                    println!("schedule {:?} ({} points)", choices, pts.len());
                    let mut bad = false;
                    for (tid, list) in assign.iter().enumerate() {
                        for (k, &pi) in list.iter().enumerate() {
                            let same = obs[tid][k] == reference[pi];
                            println!("  thread {tid} program {}: {}", progs[pi].name, if same { "equals solo run" } else { "DIFFERS from solo run" });
                            bad |= !same;
                        }
                    }
                    if bad { 1 } else { 0 }
                }
                Err(e) => {
                    println!("machinery failure: {e}");
                    2
                }
            }
        }
        Some("send-probe") => match send_probe() {
            Ok(()) => {
                println!("harness/sendprobe compiles: Muxer<W: Send> and FragmentedMuxer are Send");
                0
            }
            Err(Some(log)) => {
                println!("replay: VIOLATION C17/auto-trait/muxer-not-send\n{log}");
                1
            }
            Err(None) => 2,
        },
        Some("E1-paths") => {
            let cfg: Cfg = serde_json::from_value(case["cfg"].clone()).unwrap();
            let ops: Vec<Op> = serde_json::from_value(case["ops"].clone()).unwrap();
            let mut t = Tally::default();
            paths_for(&cfg, &ops, (0, 0), &mut t);
            for (s, f) in &t.viol {
                println!("replay: VIOLATION {s}: {}", f.detail);
            }
            if t.viol.is_empty() { 0 } else { 1 }
        }
        _ => {
            println!("re-run ./check C17 quick to reproduce this case: {case}");
            2
        }
    }
}

#[allow(dead_code)]
fn unused() {
    let _ = classify;
}
