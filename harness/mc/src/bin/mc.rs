use oracle::report::{quiet_panics, Ctx};
use std::process::exit;

fn usage() -> ! {
    eprintln!("usage: mc <C01..C20> [quick|thorough] | mc --replay <file>");
    exit(2)
}

fn main() {
    let args: Vec<String> = std::env::args().skip(1).collect();
    if args.is_empty() {
        usage();
    }
    quiet_panics();
    if args[0] == "--c12-time" {
        let secs: u64 = args.get(1).and_then(|s| s.parse().ok()).unwrap_or(0);
        exit(mc::nopanic::child_time(secs));
    }
    if args[0] == "--c12-days" {
        let a: u64 = args.get(1).and_then(|s| s.parse().ok()).unwrap_or(0);
        let b: u64 = args.get(2).and_then(|s| s.parse().ok()).unwrap_or(0);
        exit(mc::nopanic::child_days(a, b));
    }
    if args[0] == "--c11-init" {
        exit(mc::frag::child_init(args.get(1).map(|s| s.as_str()).unwrap_or("")));
    }
    if args[0] == "--c16-huge" {
        let e: i64 = args.get(1).and_then(|s| s.parse().ok()).unwrap_or(0);
        exit(mc::widths::child_huge(e, args.get(2).map(|s| s == "1").unwrap_or(false), args.get(3).and_then(|s| s.parse().ok()).unwrap_or(0)));
    }
    if args[0] == "--c17-child" {
        exit(mc::determinism::child_digest());
    }
    if args[0] == "--replay" {
        let path = args.get(1).unwrap_or_else(|| usage());
        let txt = std::fs::read_to_string(path).unwrap_or_else(|e| {
            eprintln!("cannot read {path}: {e}");
            exit(2)
        });
        let doc: serde_json::Value = serde_json::from_str(&txt).unwrap_or_else(|e| {
            eprintln!("bad replay file: {e}");
            exit(2)
        });
        let prop = doc["property"].as_str().unwrap_or("").to_string();
        println!("replaying {} signature {}", prop, doc["signature"]);
        exit(mc::replay(&prop, &doc["case"]));
    }
    let prop = args[0].clone();
    let thorough = match args.get(1).map(|s| s.as_str()).or(std::env::var("VERIF_TIER").ok().as_deref().map(|_| "")) {
        Some("thorough") => true,
        Some("quick") | None => false,
        Some("") => std::env::var("VERIF_TIER").map(|t| t == "thorough").unwrap_or(false),
        _ => usage(),
    };
    let ctx = Ctx::new(&prop, thorough);
    exit(mc::dispatch(&ctx));
}
